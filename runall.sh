#!/bin/sh
# runs every property's check at the given tier and prints one line per property
tier=${1:-quick}
for p in C01 C02 C03 C04 C05 C06 C07 C08 C09 C10 C11 C12 C13 C14 C15 C16 C17 C18 C19 C20; do
  s=$(date +%s)
  out=$(./check $p $tier 2>/dev/null); rc=$?
  e=$(date +%s)
  echo "$p rc=$rc $((e-s))s $(echo "$out" | grep -c VIOLATION) violations; $(echo "$out" | tail -1)"
done
