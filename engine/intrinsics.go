package main

import (
	"fmt"
	"go/types"
	"strings"

	"golang.org/x/tools/go/ssa"
)

type intrinsic func(e *Engine, fn *ssa.Function, args []Value) Value

var intrinsics map[string]intrinsic

type optStub struct {
	name string
	h    intrinsic
}

var optionalStubs = map[string]optStub{}

type prefixIntr struct {
	prefix string
	h      intrinsic
}

var prefixIntrinsics []prefixIntr
var prefixCache = map[*ssa.Function]intrinsic{}
var prefixCacheMiss = map[*ssa.Function]bool{}

func lookupPrefixIntrinsic(fn *ssa.Function) intrinsic {
	// NOTE: called from a single engine goroutine per process section; guarded by mutex in driver
	name := fn.String()
	for _, p := range prefixIntrinsics {
		if strings.HasPrefix(name, p.prefix) {
			return p.h
		}
	}
	return nil
}

const pkgPath = "github.com/pion/sctp."

func hname(s string) string { return pkgPath + s }

func nop(e *Engine, fn *ssa.Function, args []Value) Value {
	res := fn.Signature.Results()
	switch res.Len() {
	case 0:
		return nil
	case 1:
		return e.zero(res.At(0).Type())
	}
	return e.zero(res)
}

func opaqueString(e *Engine, fn *ssa.Function, args []Value) Value {
	return StringV{s: "?", opaque: true}
}

func (e *Engine) namedType(pkg, name string) types.Type {
	p := e.prog.ImportedPackage(pkg)
	if p == nil {
		e.fail("package %s not loaded", pkg)
	}
	t := p.Type(name)
	if t == nil {
		e.fail("type %s.%s not found", pkg, name)
	}
	return t.Type()
}

func (e *Engine) newError(msg string, wrapped Value) Value {
	if w, ok := wrapped.(IfaceV); ok && w.t != nil {
		t := e.namedType("fmt", "wrapError")
		c := e.newCell(t)
		c.kids[0].v = StringV{s: msg, opaque: true}
		c.kids[1].v = w
		return IfaceV{t: types.NewPointer(t), v: Ptr{c: c}}
	}
	t := e.namedType("errors", "errorString")
	c := e.newCell(t)
	c.kids[0].v = StringV{s: msg, opaque: true}
	return IfaceV{t: types.NewPointer(t), v: Ptr{c: c}}
}

func (e *Engine) errorIface() *types.Interface {
	return types.Universe.Lookup("error").Type().Underlying().(*types.Interface)
}

func (e *Engine) errorsIs(err, target IfaceV) bool {
	for i := 0; i < 16; i++ {
		if err.t == nil {
			return target.t == nil
		}
		eq := e.valueEq(err, target)
		if eq.IsConst() && eq.val == 1 {
			return true
		}
		sel := e.prog.MethodSets.MethodSet(err.t).Lookup(nil, "Unwrap")
		if sel == nil {
			return false
		}
		un := e.prog.MethodValue(sel)
		if un == nil {
			return false
		}
		r := e.callFunction(un, []Value{err.v}, 0)
		next, ok := r.(IfaceV)
		if !ok {
			return false
		}
		err = next
	}
	return false
}

// condLocker returns the Locker stored in field L of a sync.Cond cell.
func (e *Engine) condLocker(c *Cell) (IfaceV, bool) {
	st, ok := c.typ.Underlying().(*types.Struct)
	if !ok {
		return IfaceV{}, false
	}
	for i := 0; i < st.NumFields(); i++ {
		if st.Field(i).Name() == "L" {
			l, ok := c.kids[i].v.(IfaceV)
			return l, ok && l.t != nil
		}
	}
	return IfaceV{}, false
}

// callIfaceMethod calls the niladic method name of the dynamic value of an interface.
func (e *Engine) callIfaceMethod(v IfaceV, name string) {
	sel := e.prog.MethodSets.MethodSet(v.t).Lookup(nil, name)
	if sel == nil {
		e.fail("method %s not found on %v", name, v.t)
	}
	fn := e.prog.MethodValue(sel)
	if fn == nil {
		e.fail("method %s of %v has no body", name, v.t)
	}
	e.invokeFuncV(FuncV{fn: fn}, []Value{v.v}, 0)
}

// lockHeldElsewhere: a queued goroutine (vGoLive / vGo) that meets a lock which is held parks
// there, like at any other blocking operation (the holder is the parked harness goroutine or
// an earlier parked goroutine; a parked goroutine is not resumed). On the harness goroutine
// itself a held lock is a self-deadlock and stays a verification condition.
func (e *Engine) lockHeldElsewhere() {
	if e.inGoroutine > 0 {
		panic(goParked{})
	}
}

func (e *Engine) ghostOf(c *Cell) *ghostState {
	g, ok := e.ghost[c]
	if !ok {
		g = &ghostState{}
		e.ghost[c] = g
	}
	return g
}

func (e *Engine) now() *Term {
	if !e.stubOn["symtime"] {
		// default clock: concrete, strictly increasing by 1 ms per reading (timing-dependent
		// heuristics are not the subject unless a harness asks for vStub("symtime"))
		e.nowSeq++
		step := uint64(1000000)
		if e.stubOn["fineclock"] {
			step = 1000 // 1 us per reading: for obligations about sub-millisecond intervals
		}
		t := e.ts.BVConst(64, uint64(1<<50)+uint64(e.nowSeq)*step+e.clockSkew)
		e.timeNow = t
		return t
	}
	name := fmt.Sprintf("now%d", e.nowSeq)
	e.nowSeq++
	t := e.newVar(name, BV(64))
	lo := e.ts.BVConst(64, 1<<50)
	if e.timeNow != nil {
		lo = e.timeNow
	}
	// non-decreasing, bounded so that arithmetic cannot overflow
	e.addPC(e.ts.BvCmp(OpBvSle, lo, t))
	e.addPC(e.ts.BvCmp(OpBvSlt, t, e.ts.BVConst(64, 1<<60)))
	e.timeNow = t
	return t
}

func (e *Engine) timeV(ext *Term) Value {
	return StructV{e.ts.BVConst(64, 0), ext, Ptr{}}
}

func timeExt(v Value) *Term { return v.(StructV)[1].(*Term) }

func init() {
	intrinsics = map[string]intrinsic{
		// ---- harness API
		hname("nondetU8"):   func(e *Engine, fn *ssa.Function, a []Value) Value { return e.freshVar("u8", BV(8)) },
		hname("nondetU16"):  func(e *Engine, fn *ssa.Function, a []Value) Value { return e.freshVar("u16", BV(16)) },
		hname("nondetU32"):  func(e *Engine, fn *ssa.Function, a []Value) Value { return e.freshVar("u32", BV(32)) },
		hname("nondetU64"):  func(e *Engine, fn *ssa.Function, a []Value) Value { return e.freshVar("u64", BV(64)) },
		hname("nondetInt"):  func(e *Engine, fn *ssa.Function, a []Value) Value { return e.freshVar("u64", BV(64)) },
		hname("nondetBool"): func(e *Engine, fn *ssa.Function, a []Value) Value { return e.freshVar("bool", BoolSort) },
		hname("nondetF64"): func(e *Engine, fn *ssa.Function, a []Value) Value {
			return e.ts.FpFromBits(e.freshVar("u64", BV(64)))
		},
		hname("nondetBytes"): func(e *Engine, fn *ssa.Function, a []Value) Value {
			n := e.concreteInt(a[0], "nondetBytes length")
			arr := e.newArrayCell(types.Typ[types.Uint8], n)
			for i := 0; i < n; i++ {
				e.kid(arr, i).v = e.freshVar("u8", BV(8))
			}
			return SliceV{arr: arr, len: n, cap: n}
		},
		hname("vPick"): func(e *Engine, fn *ssa.Function, a []Value) Value {
			n := e.concreteInt(a[0], "vPick n")
			return e.intConst(e.pick(n))
		},
		hname("vassume"): func(e *Engine, fn *ssa.Function, a []Value) Value {
			e.doAssume(a[0].(*Term))
			return nil
		},
		hname("vassert"): func(e *Engine, fn *ssa.Function, a []Value) Value {
			e.doAssert(a[0].(*Term), a[1].(StringV).s)
			return nil
		},
		hname("vcover"): func(e *Engine, fn *ssa.Function, a []Value) Value {
			e.covers = append(e.covers, a[0].(StringV).s)
			return nil
		},
		hname("vobserve"): func(e *Engine, fn *ssa.Function, a []Value) Value {
			e.obs = append(e.obs, ObsRec{a[0].(StringV).s, a[1].(*Term)})
			return nil
		},
		hname("vtier"): func(e *Engine, fn *ssa.Function, a []Value) Value { return e.intConst(e.tier) },
		hname("vbound"): func(e *Engine, fn *ssa.Function, a []Value) Value {
			e.unwind = e.concreteInt(a[0], "vbound")
			return nil
		},
		hname("vStub"): func(e *Engine, fn *ssa.Function, a []Value) Value {
			e.stubOn[a[0].(StringV).s] = true
			return nil
		},
		hname("vsymbolic"): func(e *Engine, fn *ssa.Function, a []Value) Value { return e.ts.True },
		hname("vblocked"): func(e *Engine, fn *ssa.Function, a []Value) Value {
			e.block("harness")
			return nil
		},
		hname("vTimeAgo"): func(e *Engine, fn *ssa.Function, a []Value) Value {
			// a time d nanoseconds before "now" (d >= 0 assumed by caller)
			now := e.now()
			return e.timeV(e.ts.BvBin(OpBvSub, now, a[0].(*Term)))
		},
		hname("vMutexHeld"): func(e *Engine, fn *ssa.Function, a []Value) Value {
			p := a[0].(Ptr)
			g := e.ghostOf(p.c)
			return e.ts.Bool(g.locked > 0 || g.readers > 0)
		},
		hname("vGoCount"): func(e *Engine, fn *ssa.Function, a []Value) Value { return e.intConst(len(e.goCalls)) },

		// ---- fmt / errors / strings
		"fmt.Errorf": func(e *Engine, fn *ssa.Function, a []Value) Value {
			msg := a[0].(StringV).s
			var wrapped Value
			if sl, ok := a[1].(SliceV); ok {
				for i := 0; i < sl.len; i++ {
					if iv, ok := e.load(e.kid(sl.arr, sl.off+i)).(IfaceV); ok && iv.t != nil && types.Implements(iv.t, e.errorIface()) {
						wrapped = iv
						break
					}
				}
			}
			if !strings.Contains(msg, "%w") {
				wrapped = nil
			}
			return e.newError(msg, wrapped)
		},
		"fmt.Sprintf":  opaqueString,
		"fmt.Sprint":   opaqueString,
		"fmt.Sprintln": opaqueString,
		"fmt.Fprintf":  nop,
		"fmt.Fprint":   nop,
		"fmt.Fprintln": nop,
		"fmt.Printf":   nop,
		"fmt.Println":  nop,
		"fmt.Print":    nop,
		"errors.Is": func(e *Engine, fn *ssa.Function, a []Value) Value {
			return e.ts.Bool(e.errorsIs(a[0].(IfaceV), a[1].(IfaceV)))
		},
		"errors.Join": func(e *Engine, fn *ssa.Function, a []Value) Value {
			sl := a[0].(SliceV)
			var first Value
			for i := 0; i < sl.len; i++ {
				if iv := e.load(e.kid(sl.arr, sl.off+i)).(IfaceV); iv.t != nil {
					if first == nil {
						first = iv
					}
				}
			}
			if first == nil {
				return IfaceV{}
			}
			return e.newError("%w", first)
		},
		"strings.Join":                opaqueString,
		"encoding/hex.Dump":           opaqueString,
		"encoding/hex.EncodeToString": opaqueString,
		"bytes.Equal": func(e *Engine, fn *ssa.Function, a []Value) Value {
			x, y := a[0].(SliceV), a[1].(SliceV)
			if x.len != y.len {
				return e.ts.False
			}
			r := e.ts.True
			for i := 0; i < x.len; i++ {
				r = e.ts.And(r, e.ts.Eq(e.kid(x.arr, x.off+i).v.(*Term), e.kid(y.arr, y.off+i).v.(*Term)))
			}
			return r
		},

		// ---- math
		"math.Min": func(e *Engine, fn *ssa.Function, a []Value) Value {
			x, y := a[0].(*Term), a[1].(*Term)
			return e.ts.Ite(e.ts.FpCmp(OpFpLt, y, x), y, x)
		},
		"math.Max": func(e *Engine, fn *ssa.Function, a []Value) Value {
			x, y := a[0].(*Term), a[1].(*Term)
			return e.ts.Ite(e.ts.FpCmp(OpFpLt, x, y), y, x)
		},
		"math.Abs":   func(e *Engine, fn *ssa.Function, a []Value) Value { return e.ts.FpUn(OpFpAbs, a[0].(*Term)) },
		"math.IsNaN": func(e *Engine, fn *ssa.Function, a []Value) Value { return e.ts.FpPred(OpFpIsNaN, a[0].(*Term)) },
		"math.IsInf": func(e *Engine, fn *ssa.Function, a []Value) Value {
			return e.ts.FpPred(OpFpIsInf, a[0].(*Term))
		},
		"math.Inf": func(e *Engine, fn *ssa.Function, a []Value) Value {
			s := a[0].(*Term)
			if !s.IsConst() {
				e.fail("math.Inf symbolic sign")
			}
			if sext64(s.val, 64) >= 0 {
				return e.ts.mk(&Term{op: OpConst, sort: FPSort, val: 0x7ff0000000000000})
			}
			return e.ts.mk(&Term{op: OpConst, sort: FPSort, val: 0xfff0000000000000})
		},
		"math.Float64bits": func(e *Engine, fn *ssa.Function, a []Value) Value {
			f := a[0].(*Term)
			if f.IsConst() {
				return e.ts.BVConst(64, f.val)
			}
			if f.op == OpFpFromBits {
				return f.args[0]
			}
			e.bitsSeq++
			b := e.newVar(fmt.Sprintf("fbits%d", e.bitsSeq), BV(64))
			back := e.ts.FpFromBits(b)
			// b is a bit pattern of f (NaNs: any NaN pattern)
			same := e.ts.Or(e.ts.FpCmp(OpFpEq, back, f), e.ts.And(e.ts.FpPred(OpFpIsNaN, back), e.ts.FpPred(OpFpIsNaN, f)))
			// distinguish +0/-0 by sign of 1/x is overkill; require identical sign bit via comparison of negation
			e.addPC(same)
			return b
		},
		"math.Float64frombits": func(e *Engine, fn *ssa.Function, a []Value) Value {
			return e.ts.FpFromBits(a[0].(*Term))
		},
		"math.Ceil": func(e *Engine, fn *ssa.Function, a []Value) Value {
			x := a[0].(*Term)
			if x.IsConst() {
				f := f64(x)
				c := float64(int64(f))
				if c < f {
					c++
				}
				return e.ts.FPConst(c)
			}
			e.fail("math.Ceil symbolic")
			return nil
		},
		"math/bits.TrailingZeros64": func(e *Engine, fn *ssa.Function, a []Value) Value { return e.ts.Ctz64(a[0].(*Term)) },
		"math/bits.OnesCount64":     func(e *Engine, fn *ssa.Function, a []Value) Value { return e.ts.PopCount64(a[0].(*Term)) },

		// ---- time
		"time.Now":   func(e *Engine, fn *ssa.Function, a []Value) Value { return e.timeV(e.now()) },
		"time.Since": func(e *Engine, fn *ssa.Function, a []Value) Value { return e.ts.BvBin(OpBvSub, e.now(), timeExt(a[0])) },
		"time.Until": func(e *Engine, fn *ssa.Function, a []Value) Value { return e.ts.BvBin(OpBvSub, timeExt(a[0]), e.now()) },
		"(time.Time).IsZero": func(e *Engine, fn *ssa.Function, a []Value) Value {
			return e.ts.Eq(timeExt(a[0]), e.ts.BVConst(64, 0))
		},
		"(time.Time).Sub": func(e *Engine, fn *ssa.Function, a []Value) Value {
			return e.ts.BvBin(OpBvSub, timeExt(a[0]), timeExt(a[1]))
		},
		"(time.Time).Add": func(e *Engine, fn *ssa.Function, a []Value) Value {
			return e.timeV(e.ts.BvBin(OpBvAdd, timeExt(a[0]), a[1].(*Term)))
		},
		"(time.Time).Before": func(e *Engine, fn *ssa.Function, a []Value) Value {
			return e.ts.BvCmp(OpBvSlt, timeExt(a[0]), timeExt(a[1]))
		},
		"(time.Time).After": func(e *Engine, fn *ssa.Function, a []Value) Value {
			return e.ts.BvCmp(OpBvSlt, timeExt(a[1]), timeExt(a[0]))
		},
		"(time.Time).Equal": func(e *Engine, fn *ssa.Function, a []Value) Value {
			return e.ts.Eq(timeExt(a[0]), timeExt(a[1]))
		},
		// time.Unix(sec, nsec): the engine's Time carries Unix nanoseconds in ext (the Unix
		// epoch itself coincides with the zero Time in this representation; harnesses do not use it)
		"time.Unix": func(e *Engine, fn *ssa.Function, a []Value) Value {
			ns := e.ts.BvBin(OpBvAdd, e.ts.BvBin(OpBvMul, a[0].(*Term), e.ts.BVConst(64, 1000000000)), a[1].(*Term))
			return e.timeV(ns)
		},
		"(time.Time).UnixNano": func(e *Engine, fn *ssa.Function, a []Value) Value { return timeExt(a[0]) },
		"time.AfterFunc": func(e *Engine, fn *ssa.Function, a []Value) Value {
			t := e.namedType("time", "Timer")
			c := e.newCell(t)
			g := e.ghostOf(c)
			g.timerArmed = true
			g.timerDur = a[0].(*Term)
			g.timerFn = a[1].(FuncV)
			return Ptr{c: c}
		},
		"time.NewTimer": func(e *Engine, fn *ssa.Function, a []Value) Value {
			t := e.namedType("time", "Timer")
			c := e.newCell(t)
			g := e.ghostOf(c)
			g.timerArmed = true
			g.timerDur = a[0].(*Term)
			// channel C delivers when the receiver has nothing else to wait for (ops.go)
			e.objSeq++
			c.kids[0].v = &ChanObj{cap: 1, timer: g, id: e.objSeq}
			return Ptr{c: c}
		},
		"time.After": func(e *Engine, fn *ssa.Function, a []Value) Value {
			e.objSeq++
			return &ChanObj{cap: 1, timer: &ghostState{timerArmed: true, timerDur: a[0].(*Term)}, id: e.objSeq}
		},
		"(*time.Timer).Stop": func(e *Engine, fn *ssa.Function, a []Value) Value {
			g := e.ghostOf(a[0].(Ptr).c)
			was := g.timerArmed
			g.timerArmed = false
			return e.ts.Bool(was)
		},
		"(*time.Timer).Reset": func(e *Engine, fn *ssa.Function, a []Value) Value {
			g := e.ghostOf(a[0].(Ptr).c)
			was := g.timerArmed
			g.timerArmed = true
			g.timerDur = a[1].(*Term)
			g.resets++
			return e.ts.Bool(was)
		},
		hname("vTimerWait"): func(e *Engine, fn *ssa.Function, a []Value) Value {
			// a[0] is *rtxTimer: its first field is the *time.Timer
			tp := a[0].(Ptr)
			timerPtr := e.load(tp.c.kids[0]).(Ptr)
			g := e.ghostOf(timerPtr.c)
			d := g.timerDur
			if d == nil || !g.timerArmed {
				return e.ts.BVConst(64, 0)
			}
			g.timerArmed = false
			m := e.prog.LookupMethod(types.NewPointer(tp.c.typ), e.pkg.Pkg, "timeout")
			e.callFunction(m, []Value{tp}, 0)
			return d
		},
		hname("vTimerArmedNative"): func(e *Engine, fn *ssa.Function, a []Value) Value {
			p := a[0].(Ptr)
			if p.c == nil {
				return e.ts.False
			}
			return e.ts.Bool(e.ghostOf(p.c).timerArmed)
		},
		hname("vTimerArmed"): func(e *Engine, fn *ssa.Function, a []Value) Value {
			p := a[0].(Ptr)
			if p.c == nil {
				return e.ts.False
			}
			return e.ts.Bool(e.ghostOf(p.c).timerArmed)
		},
		hname("vTimerDur"): func(e *Engine, fn *ssa.Function, a []Value) Value {
			p := a[0].(Ptr)
			g := e.ghostOf(p.c)
			if g.timerDur == nil {
				return e.ts.BVConst(64, 0)
			}
			return g.timerDur
		},

		// ---- sync
		"(*sync.Mutex).Lock": func(e *Engine, fn *ssa.Function, a []Value) Value {
			g := e.ghostOf(a[0].(Ptr).c)
			if g.locked > 0 {
				e.lockHeldElsewhere()
				e.vc(e.ts.True, "deadlock: sync.Mutex locked while already held on this path")
			}
			g.locked = 1
			return nil
		},
		"(*sync.Mutex).TryLock": func(e *Engine, fn *ssa.Function, a []Value) Value {
			g := e.ghostOf(a[0].(Ptr).c)
			if g.locked > 0 {
				return e.ts.False
			}
			g.locked = 1
			return e.ts.True
		},
		"(*sync.Mutex).Unlock": func(e *Engine, fn *ssa.Function, a []Value) Value {
			g := e.ghostOf(a[0].(Ptr).c)
			if g.locked == 0 {
				e.vc(e.ts.True, "sync: unlock of unlocked mutex")
			}
			g.locked = 0
			return nil
		},
		"(*sync.RWMutex).Lock": func(e *Engine, fn *ssa.Function, a []Value) Value {
			g := e.ghostOf(a[0].(Ptr).c)
			if g.locked > 0 || g.readers > 0 {
				e.lockHeldElsewhere()
				e.vc(e.ts.True, "deadlock: sync.RWMutex.Lock while already held on this path")
			}
			g.locked = 1
			return nil
		},
		"(*sync.RWMutex).Unlock": func(e *Engine, fn *ssa.Function, a []Value) Value {
			g := e.ghostOf(a[0].(Ptr).c)
			if g.locked == 0 {
				e.vc(e.ts.True, "sync: Unlock of unlocked RWMutex")
			}
			g.locked = 0
			return nil
		},
		"(*sync.RWMutex).TryLock": func(e *Engine, fn *ssa.Function, a []Value) Value {
			g := e.ghostOf(a[0].(Ptr).c)
			if g.locked > 0 || g.readers > 0 {
				return e.ts.False
			}
			g.locked = 1
			return e.ts.True
		},
		"(*sync.RWMutex).RLock": func(e *Engine, fn *ssa.Function, a []Value) Value {
			g := e.ghostOf(a[0].(Ptr).c)
			if g.locked > 0 {
				e.lockHeldElsewhere()
				e.vc(e.ts.True, "deadlock: sync.RWMutex.RLock while write-held on this path")
			}
			g.readers++
			return nil
		},
		"(*sync.RWMutex).RUnlock": func(e *Engine, fn *ssa.Function, a []Value) Value {
			g := e.ghostOf(a[0].(Ptr).c)
			if g.readers == 0 {
				e.vc(e.ts.True, "sync: RUnlock of unlocked RWMutex")
			}
			g.readers--
			return nil
		},
		"(*sync.Once).Do": func(e *Engine, fn *ssa.Function, a []Value) Value {
			g := e.ghostOf(a[0].(Ptr).c)
			if !g.onceDone {
				g.onceDone = true
				e.invokeFuncV(a[1].(FuncV), nil, 0)
			}
			return nil
		},
		"sync.NewCond": func(e *Engine, fn *ssa.Function, a []Value) Value {
			t := e.namedType("sync", "Cond")
			c := e.newCell(t)
			// store locker in field L
			st := t.Underlying().(*types.Struct)
			for i := 0; i < st.NumFields(); i++ {
				if st.Field(i).Name() == "L" {
					c.kids[i].v = a[0]
				}
			}
			return Ptr{c: c}
		},
		"(*sync.Cond).Wait": func(e *Engine, fn *ssa.Function, a []Value) Value {
			// With goroutines queued (vGoLive / vGo) the harness goroutine really waits: it
			// releases L, the queued goroutines run, and if one of them signalled the
			// condition it takes L again and returns; otherwise (and always for a queued
			// goroutine itself) the wait never ends on this path.
			c := a[0].(Ptr).c
			if e.inGoroutine == 0 && len(e.goQueue) > 0 {
				g := e.ghostOf(c)
				if l, ok := e.condLocker(c); ok {
					before := g.signals
					e.callIfaceMethod(l, "Unlock")
					g.waiters++
					e.runQueued()
					if g.signals > before {
						if g.waiters > 0 {
							g.waiters--
						}
						e.callIfaceMethod(l, "Lock")
						return nil
					}
				}
			}
			e.block("sync.Cond.Wait")
			return nil
		},
		"(*sync.Cond).Broadcast": func(e *Engine, fn *ssa.Function, a []Value) Value {
			g := e.ghostOf(a[0].(Ptr).c)
			g.signals++
			g.waiters = 0
			return nil
		},
		"(*sync.Cond).Signal": func(e *Engine, fn *ssa.Function, a []Value) Value {
			g := e.ghostOf(a[0].(Ptr).c)
			g.signals++
			if g.waiters > 0 {
				g.waiters--
			}
			return nil
		},
		// ghost waiters of a condition variable: vCondPark(c, n) stands for n goroutines parked
		// in c.Wait(); vCondParked(c) is how many of them have not been woken since
		hname("vCondPark"): func(e *Engine, fn *ssa.Function, a []Value) Value {
			e.ghostOf(a[0].(Ptr).c).waiters = e.concreteInt(a[1], "vCondPark")
			return nil
		},
		hname("vCondParked"): func(e *Engine, fn *ssa.Function, a []Value) Value {
			return e.intConst(e.ghostOf(a[0].(Ptr).c).waiters)
		},
		hname("vGuardedBy"): func(e *Engine, fn *ssa.Function, a []Value) Value {
			field := a[0].(IfaceV).v.(Ptr).c
			lock := a[1].(IfaceV).v.(Ptr).c
			// descend through wrapper structs to the embedded sync mutex (where the ghost lives)
			for lock != nil && lock.kids != nil {
				if n, ok := lock.typ.(*types.Named); ok && n.Obj().Pkg() != nil && n.Obj().Pkg().Path() == "sync" {
					break
				}
				lock = lock.kids[0]
			}
			if e.guards == nil {
				e.guards = map[*Cell]guardInfo{}
			}
			e.guards[field] = guardInfo{lock: lock, name: a[2].(StringV).s}
			return nil
		},
		// vWorkBegin(k, msg) .. vWorkEnd(): the section may execute at most k interpreted
		// instructions; more is a violation of kind "work" (native confirmation: the section
		// takes longer than k x 10 ns on the wall clock)
		hname("vWorkBegin"): func(e *Engine, fn *ssa.Function, a []Value) Value {
			e.workLimit = e.steps + int64(e.concreteInt(a[0], "vWorkBegin"))
			e.workMsg = a[1].(StringV).s
			return nil
		},
		hname("vWorkEnd"): func(e *Engine, fn *ssa.Function, a []Value) Value {
			e.workLimit = 0
			return nil
		},
		// vSleep(d): time passes (concrete clock only); natively a real sleep
		hname("vSleep"): func(e *Engine, fn *ssa.Function, a []Value) Value {
			d := a[0].(*Term)
			if !d.IsConst() {
				e.fail("vSleep with a symbolic duration")
			}
			e.clockSkew += d.val
			return nil
		},
		// the default logger factory (reads the environment): an empty factory object; every
		// harness passes its own silent logger, which replaces it
		"github.com/pion/logging.NewDefaultLoggerFactory": func(e *Engine, fn *ssa.Function, a []Value) Value {
			return Ptr{c: e.newCell(e.namedType("github.com/pion/logging", "DefaultLoggerFactory"))}
		},
		// vQueueGo(f): a goroutine of the code under check that runs when the harness goroutine
		// blocks (interp.go runQueued); natively a real goroutine
		hname("vQueueGo"): func(e *Engine, fn *ssa.Function, a []Value) Value {
			e.goQueue = append(e.goQueue, a[0].(FuncV))
			return nil
		},
		hname("vMustNotBlock"): func(e *Engine, fn *ssa.Function, a []Value) Value {
			e.noBlockMsg = a[0].(StringV).s
			e.sectionStart = e.steps
			e.sectionForks = 0
			return nil
		},
		hname("vMayBlock"): func(e *Engine, fn *ssa.Function, a []Value) Value {
			e.noBlockMsg = ""
			return nil
		},
		hname("vOnMain"): func(e *Engine, fn *ssa.Function, a []Value) Value { return e.ts.True },
		hname("vHarnessGoroutine"): func(e *Engine, fn *ssa.Function, a []Value) Value { return e.ts.Bool(e.inGoroutine == 0) },
		hname("vCondSignals"): func(e *Engine, fn *ssa.Function, a []Value) Value {
			return e.intConst(e.ghostOf(a[0].(Ptr).c).signals)
		},
		"(*sync.WaitGroup).Add":  nop,
		"(*sync.WaitGroup).Done": nop,
		"(*sync.WaitGroup).Wait": nop,
		"(*sync.WaitGroup).Go":   nop,

		// ---- crc / rand
		"hash/crc32.MakeTable": func(e *Engine, fn *ssa.Function, a []Value) Value {
			t := e.namedType("hash/crc32", "Table")
			return Ptr{c: e.newCell(types.NewArray(types.Typ[types.Uint32], 1))}.withType(t)
		},
		// CRC32c over a symbolic buffer is out of reach for the solvers (see DESIGN §1.4):
		// the packet checksum is an uninterpreted function of the checksummed bytes
		// (equal byte terms -> the same value), the real CRC runs in native replays.
		hname("generatePacketChecksum"): func(e *Engine, fn *ssa.Function, a []Value) Value {
			sl := a[0].(SliceV)
			if sl.len < 12 {
				e.vc(e.ts.True, "generatePacketChecksum: slice bounds out of range")
			}
			var sb strings.Builder
			for i := 0; i < sl.len; i++ {
				if i >= 8 && i < 12 {
					continue
				}
				fmt.Fprintf(&sb, "%d,", e.kid(sl.arr, sl.off+i).v.(*Term).id)
			}
			key := sb.String()
			if e.crcMemo == nil {
				e.crcMemo = map[string]*Term{}
			}
			if t, ok := e.crcMemo[key]; ok {
				return t
			}
			e.crcSeq++
			t := e.newVar(fmt.Sprintf("crc%d", e.crcSeq), BV(32))
			e.crcMemo[key] = t
			// assumption (listed in the evidence): the CRC of a packet is not 0x00000000; a
			// true zero CRC (probability 2^-32) would be indistinguishable from "no checksum"
			e.addPC(e.ts.Not(e.ts.Eq(t, e.ts.BVConst(32, 0))))
			// Ackermann congruence with earlier applications on buffers of the same length
			var cur []*Term
			for i := 0; i < sl.len; i++ {
				if i >= 8 && i < 12 {
					continue
				}
				cur = append(cur, e.kid(sl.arr, sl.off+i).v.(*Term))
			}
			for _, prev := range e.crcApps {
				if len(prev.bytes) != len(cur) {
					continue
				}
				same := e.ts.True
				for i := range cur {
					same = e.ts.And(same, e.ts.Eq(cur[i], prev.bytes[i]))
				}
				e.addPC(e.ts.Or(e.ts.Not(same), e.ts.Eq(t, prev.val)))
			}
			e.crcApps = append(e.crcApps, crcApp{cur, t})
			return t
		},
		// loops until the random tag is non-zero: modelled as an arbitrary non-zero value
		hname("generateInitiateTag"): func(e *Engine, fn *ssa.Function, a []Value) Value {
			e.rndSeq++
			t := e.newVar(fmt.Sprintf("tag%d", e.rndSeq), BV(32))
			e.addPC(e.ts.Not(e.ts.Eq(t, e.ts.BVConst(32, 0))))
			return t
		},
		"hash/crc32.Update": func(e *Engine, fn *ssa.Function, a []Value) Value {
			e.crcSeq++
			return e.newVar(fmt.Sprintf("crc%d", e.crcSeq), BV(32))
		},
		"hash/crc32.Checksum": func(e *Engine, fn *ssa.Function, a []Value) Value {
			e.crcSeq++
			return e.newVar(fmt.Sprintf("crc%d", e.crcSeq), BV(32))
		},
		"github.com/pion/randutil.NewMathRandomGenerator": func(e *Engine, fn *ssa.Function, a []Value) Value {
			t := e.namedType("github.com/pion/randutil", "mathRandomGenerator")
			return IfaceV{t: types.NewPointer(t), v: Ptr{c: e.newCell(t)}}
		},
		"(*github.com/pion/randutil.mathRandomGenerator).Uint32": func(e *Engine, fn *ssa.Function, a []Value) Value {
			e.rndSeq++
			return e.newVar(fmt.Sprintf("rnd%d", e.rndSeq), BV(32))
		},
		"(*github.com/pion/randutil.mathRandomGenerator).Uint64": func(e *Engine, fn *ssa.Function, a []Value) Value {
			e.rndSeq++
			return e.newVar(fmt.Sprintf("rnd%d_64", e.rndSeq), BV(64))
		},
		"crypto/rand.Read": func(e *Engine, fn *ssa.Function, a []Value) Value {
			sl := a[0].(SliceV)
			for i := 0; i < sl.len; i++ {
				e.rndSeq++
				e.kid(sl.arr, sl.off+i).v = e.newVar(fmt.Sprintf("rnd%d_8", e.rndSeq), BV(8))
			}
			return TupleV{e.intConst(sl.len), IfaceV{}}
		},

		// ---- sort
		"sort.Slice": func(e *Engine, fn *ssa.Function, a []Value) Value {
			iv := a[0].(IfaceV)
			sl := iv.v.(SliceV)
			less := a[1].(FuncV)
			// insertion sort calling the real less closure
			for i := 1; i < sl.len; i++ {
				for j := i; j > 0; j-- {
					r := e.invokeFuncV(less, []Value{e.intConst(j), e.intConst(j - 1)}, 0).(*Term)
					if !e.branch(r, nil) {
						break
					}
					cj, cp := e.kid(sl.arr, sl.off+j), e.kid(sl.arr, sl.off+j-1)
					vj, vp := e.load(cj), e.load(cp)
					e.store(cj, vp)
					e.store(cp, vj)
				}
			}
			return nil
		},

		"maps.clone": func(e *Engine, fn *ssa.Function, a []Value) Value {
			iv := a[0].(IfaceV)
			m, _ := iv.v.(*MapObj)
			if m == nil {
				return iv
			}
			e.objSeq++
			nm := &MapObj{keyT: m.keyT, elemT: m.elemT, id: e.objSeq}
			nm.keys = append(nm.keys, m.keys...)
			nm.vals = append(nm.vals, m.vals...)
			return IfaceV{t: iv.t, v: nm}
		},
		// ---- context
		"context.Background": func(e *Engine, fn *ssa.Function, a []Value) Value {
			t := e.namedType("context", "backgroundCtx")
			return IfaceV{t: t, v: e.zero(t)}
		},
		"(context.backgroundCtx).Done": func(e *Engine, fn *ssa.Function, a []Value) Value { return (*ChanObj)(nil) },
		"(context.backgroundCtx).Err":  func(e *Engine, fn *ssa.Function, a []Value) Value { return IfaceV{} },
	}

	intrinsics["(*"+pkgPath[:len(pkgPath)-1]+".receivePayloadQueue).getGapAckBlocksString"] = opaqueString
	// optional stubs, enabled per harness with vStub(name)
	optionalStubs["(*"+pkgPath[:len(pkgPath)-1]+".rtoManager).setNewRTT"] = optStub{"setNewRTT", func(e *Engine, fn *ssa.Function, a []Value) Value {
		// pure callee summarised: arbitrary finite non-negative SRTT (verified on its own in C19.L1)
		e.rndSeq++
		b := e.newVar(fmt.Sprintf("srtt%d", e.rndSeq), BV(64))
		f := e.ts.FpFromBits(b)
		e.addPC(e.ts.FpCmp(OpFpLe, e.ts.FPConst(0), f))
		e.addPC(e.ts.FpCmp(OpFpLe, f, e.ts.FPConst(1e12)))
		e.rttSamples++
		return f
	}}
	prefixIntrinsics = []prefixIntr{
		{"(*strings.Builder).String", opaqueString},
		{"(*strings.Builder).", nop},
		{"(*sync/atomic.", atomicMethod},
		{"sync/atomic.", atomicFunc},
		{"runtime.", nop},
	}
}

func (p Ptr) withType(t types.Type) Ptr { return p }

func atomicValCell(e *Engine, recv Value) *Cell {
	p := recv.(Ptr)
	c := p.c
	if c == nil {
		e.fail("atomic op on nil")
	}
	st, ok := c.typ.Underlying().(*types.Struct)
	if !ok {
		return c
	}
	for i := 0; i < st.NumFields(); i++ {
		if st.Field(i).Name() == "v" {
			return c.kids[i]
		}
	}
	e.fail("atomic type %v has no v field", c.typ)
	return nil
}

func atomicMethod(e *Engine, fn *ssa.Function, a []Value) Value {
	name := fn.Name()
	recvT := fn.Signature.Recv().Type().String()
	if strings.Contains(recvT, "atomic.Value") {
		c := a[0].(Ptr).c.kids[0]
		switch name {
		case "Load":
			if v, ok := c.v.(IfaceV); ok {
				return v
			}
			return IfaceV{}
		case "Store":
			c.v = a[1]
			return nil
		}
		e.fail("atomic.Value.%s", name)
	}
	c := atomicValCell(e, a[0])
	isBool := strings.Contains(recvT, "atomic.Bool")
	isPtr := strings.Contains(recvT, "atomic.Pointer")
	toStored := func(v Value) Value {
		if isBool {
			return e.ts.Ite(v.(*Term), e.ts.BVConst(32, 1), e.ts.BVConst(32, 0))
		}
		return v
	}
	fromStored := func(v Value) Value {
		if isBool {
			return e.ts.Not(e.ts.Eq(v.(*Term), e.ts.BVConst(32, 0)))
		}
		return v
	}
	_ = isPtr
	switch name {
	case "Load":
		return fromStored(e.load(c))
	case "Store":
		e.store(c, toStored(a[1]))
		return nil
	case "Add":
		nv := e.ts.BvBin(OpBvAdd, e.load(c).(*Term), a[1].(*Term))
		e.store(c, nv)
		return nv
	case "Swap":
		old := e.load(c)
		e.store(c, toStored(a[1]))
		return fromStored(old)
	case "CompareAndSwap":
		old := e.load(c)
		eq := e.valueEq(old, toStored(a[1]))
		if e.branch(eq, nil) {
			e.store(c, toStored(a[2]))
			return e.ts.True
		}
		return e.ts.False
	}
	e.fail("unsupported atomic method %s", fn.String())
	return nil
}

func atomicFunc(e *Engine, fn *ssa.Function, a []Value) Value {
	name := fn.Name()
	c := a[0].(Ptr).c
	switch {
	case strings.HasPrefix(name, "Load"):
		return e.load(c)
	case strings.HasPrefix(name, "Store"):
		e.store(c, a[1])
		return nil
	case strings.HasPrefix(name, "Add"):
		nv := e.ts.BvBin(OpBvAdd, e.load(c).(*Term), a[1].(*Term))
		e.store(c, nv)
		return nv
	case strings.HasPrefix(name, "Swap"):
		old := e.load(c)
		e.store(c, a[1])
		return old
	case strings.HasPrefix(name, "CompareAndSwap"):
		old := e.load(c)
		eq := e.valueEq(old, a[1])
		if e.branch(eq, nil) {
			e.store(c, a[2])
			return e.ts.True
		}
		return e.ts.False
	}
	e.fail("unsupported atomic func %s", fn.String())
	return nil
}

// initExternalGlobal gives well-known globals of other packages a value.
func (e *Engine) initExternalGlobal(g *ssa.Global, c *Cell) {
	t := g.Type().(*types.Pointer).Elem()
	if types.Identical(t, types.Universe.Lookup("error").Type()) {
		c.v = e.newError(g.Pkg.Pkg.Path()+"."+g.Name(), nil)
	}
}
