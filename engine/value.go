package main

import (
	"fmt"
	"go/types"

	"golang.org/x/tools/go/ssa"
)

// Value is one of: *Term, Ptr, StructV, ArrayV, SliceV, StringV, IfaceV, FuncV,
// *MapObj, *ChanObj, TupleV, nil(for untyped nil func etc.)
type Value interface{}

type Ptr struct {
	c *Cell // nil => nil pointer
	// symbolic element pointer: element (base+sym) of array cell arr
	arr  *Cell
	base int
	sym  *Term         // BV64 index relative to base; nil if concrete
	n    int           // number of addressable elements from base (bound already checked)
	fn   *ssa.Function // pointer-to-function value? unused
}

type StructV []Value
type ArrayV []Value
type TupleV []Value

type SliceV struct {
	arr *Cell // nil => nil slice
	off int
	len int
	cap int
}

type StringV struct {
	s      string
	opaque bool
}

type IfaceV struct {
	t types.Type // nil => nil interface
	v Value
}

type FuncV struct {
	fn   *ssa.Function
	bind []Value
	bi   *ssa.Builtin
	// bound method closure created by the engine
	native func(e *Engine, args []Value) Value
	name   string
}

type MapObj struct {
	keyT  types.Type
	elemT types.Type
	keys  []Value
	vals  []Value
	id    int
}

type ChanObj struct {
	cap    int
	buf    []Value
	closed bool
	elemT  types.Type
	id     int
	// ready is set by harness stubs (e.g. ctx.Done()) to mean "never ready"
	never bool
	// timer is set for the channel of a time.Timer / time.After: it delivers once, when the
	// timer is armed and the receiver has nothing else to proceed with
	timer *ghostState
	// recvWaiting > 0 while the harness goroutine is blocked receiving on this channel and
	// queued goroutines run: a send on an unbuffered channel then finds its receiver
	recvWaiting int
	// offer is set while the harness goroutine is blocked sending on this (unbuffered) channel
	// and queued goroutines run: a receive by one of them takes the value
	offer *sendOffer
}

type sendOffer struct {
	val   Value
	taken bool
}

type Cell struct {
	typ  types.Type
	v    Value
	kids []*Cell
	lazy map[int]*Cell // large arrays
	n    int           // array length (when array)
	elem types.Type
	id   int
}

func (e *Engine) newCell(t types.Type) *Cell {
	e.cellSeq++
	c := &Cell{typ: t, id: e.cellSeq}
	switch u := t.Underlying().(type) {
	case *types.Struct:
		c.kids = make([]*Cell, u.NumFields())
		for i := range c.kids {
			c.kids[i] = e.newCell(u.Field(i).Type())
		}
	case *types.Array:
		c.n = int(u.Len())
		c.elem = u.Elem()
		if c.n <= 64 {
			c.kids = make([]*Cell, c.n)
			for i := range c.kids {
				c.kids[i] = e.newCell(u.Elem())
			}
		} else {
			c.lazy = map[int]*Cell{}
		}
	default:
		c.v = e.zero(t)
	}
	return c
}

func (e *Engine) newArrayCell(elem types.Type, n int) *Cell {
	return e.newCell(types.NewArray(elem, int64(n)))
}

func (c *Cell) isArray() bool { return c.elem != nil }

func (e *Engine) kid(c *Cell, i int) *Cell {
	if c.kids != nil {
		return c.kids[i]
	}
	if c.lazy != nil {
		k, ok := c.lazy[i]
		if !ok {
			k = e.newCell(c.elem)
			c.lazy[i] = k
		}
		return k
	}
	panic(fmt.Sprintf("kid(%d) on leaf cell of type %v", i, c.typ))
}

func (e *Engine) load(c *Cell) Value {
	if c.kids != nil || c.lazy != nil {
		if c.isArray() {
			out := make(ArrayV, c.n)
			for i := 0; i < c.n; i++ {
				out[i] = e.load(e.kid(c, i))
			}
			return out
		}
		out := make(StructV, len(c.kids))
		for i, k := range c.kids {
			out[i] = e.load(k)
		}
		return out
	}
	return c.v
}

func (e *Engine) store(c *Cell, v Value) {
	if c.kids != nil || c.lazy != nil {
		if c.isArray() {
			av, ok := v.(ArrayV)
			if !ok {
				panic(fmt.Sprintf("store non-array %T into array cell %v", v, c.typ))
			}
			for i := 0; i < c.n; i++ {
				e.store(e.kid(c, i), av[i])
			}
			return
		}
		sv, ok := v.(StructV)
		if !ok {
			panic(fmt.Sprintf("store non-struct %T into struct cell %v", v, c.typ))
		}
		for i, k := range c.kids {
			e.store(k, sv[i])
		}
		return
	}
	c.v = v
}

func (e *Engine) sortOf(t types.Type) (Sort, bool) {
	switch u := t.Underlying().(type) {
	case *types.Basic:
		switch u.Kind() {
		case types.Bool, types.UntypedBool:
			return BoolSort, true
		case types.Int8, types.Uint8:
			return BV(8), true
		case types.Int16, types.Uint16:
			return BV(16), true
		case types.Int32, types.Uint32, types.UntypedRune:
			return BV(32), true
		case types.Int, types.Uint, types.Int64, types.Uint64, types.Uintptr, types.UntypedInt:
			return BV(64), true
		case types.Float64, types.UntypedFloat, types.Float32:
			return FPSort, true
		}
	}
	return Sort{}, false
}

func isSigned(t types.Type) bool {
	if b, ok := t.Underlying().(*types.Basic); ok {
		return b.Info()&types.IsInteger != 0 && b.Info()&types.IsUnsigned == 0
	}
	return false
}

func isFloat(t types.Type) bool {
	if b, ok := t.Underlying().(*types.Basic); ok {
		return b.Info()&types.IsFloat != 0
	}
	return false
}

func isString(t types.Type) bool {
	if b, ok := t.Underlying().(*types.Basic); ok {
		return b.Info()&types.IsString != 0
	}
	return false
}

func (e *Engine) zero(t types.Type) Value {
	switch u := t.Underlying().(type) {
	case *types.Basic:
		if s, ok := e.sortOf(t); ok {
			switch s.K {
			case SBool:
				return e.ts.False
			case SBV:
				return e.ts.BVConst(s.W, 0)
			default:
				return e.ts.FPConst(0)
			}
		}
		if u.Info()&types.IsString != 0 {
			return StringV{}
		}
		if u.Kind() == types.UnsafePointer || u.Kind() == types.UntypedNil {
			return Ptr{}
		}
		panic(fmt.Sprintf("zero: unsupported basic %v", t))
	case *types.Pointer:
		return Ptr{}
	case *types.Struct:
		out := make(StructV, u.NumFields())
		for i := range out {
			out[i] = e.zero(u.Field(i).Type())
		}
		return out
	case *types.Array:
		out := make(ArrayV, u.Len())
		for i := range out {
			out[i] = e.zero(u.Elem())
		}
		return out
	case *types.Slice:
		return SliceV{}
	case *types.Map:
		return (*MapObj)(nil)
	case *types.Chan:
		return (*ChanObj)(nil)
	case *types.Interface:
		return IfaceV{}
	case *types.Signature:
		return FuncV{}
	case *types.Tuple:
		out := make(TupleV, u.Len())
		for i := range out {
			out[i] = e.zero(u.At(i).Type())
		}
		return out
	}
	panic(fmt.Sprintf("zero: unsupported type %v (%T)", t, t.Underlying()))
}

func (e *Engine) describe(v Value) string {
	switch x := v.(type) {
	case *Term:
		return x.String()
	case Ptr:
		if x.c == nil && x.arr == nil {
			return "nil"
		}
		if x.c != nil {
			return fmt.Sprintf("&cell%d", x.c.id)
		}
		return fmt.Sprintf("&cell%d[sym]", x.arr.id)
	case StringV:
		return fmt.Sprintf("%q", x.s)
	case SliceV:
		return fmt.Sprintf("slice(len=%d)", x.len)
	case IfaceV:
		if x.t == nil {
			return "nil-iface"
		}
		return fmt.Sprintf("iface(%v)", x.t)
	}
	return fmt.Sprintf("%T", v)
}
