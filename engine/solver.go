package main

// One persistent solver process (z3 -in or cvc5 --incremental), definitions are
// global (define-fun per hash-consed term), each query is push/assert/check/pop.

import (
	"bufio"
	"fmt"
	"io"
	"os/exec"
	"strconv"
	"strings"
	"time"
)

type Result int

const (
	Unsat Result = iota
	Sat
	Unknown
)

func (r Result) String() string { return [...]string{"unsat", "sat", "unknown"}[r] }

type Solver struct {
	name      string
	cmd       *exec.Cmd
	in        io.WriteCloser
	out       *bufio.Reader
	defined   map[int]bool
	timeoutMs int
	Queries   int
	Time      time.Duration
	Errors    []string
	log       io.Writer
	nSat      int
	nUnsat    int
	nUnknown  int
}

func NewSolver(kind string, timeoutMs int) (*Solver, error) {
	var cmd *exec.Cmd
	switch kind {
	case "z3":
		cmd = exec.Command("/usr/bin/z3", "-in")
	case "z3-new":
		cmd = exec.Command("z3-new", "-in")
	case "cvc5":
		cmd = exec.Command("cvc5", "--incremental", "--produce-models", "--lang=smt2", fmt.Sprintf("--tlimit-per=%d", timeoutMs))
	default:
		return nil, fmt.Errorf("unknown solver %s", kind)
	}
	in, err := cmd.StdinPipe()
	if err != nil {
		return nil, err
	}
	outp, err := cmd.StdoutPipe()
	if err != nil {
		return nil, err
	}
	cmd.Stderr = cmd.Stdout
	if err := cmd.Start(); err != nil {
		return nil, err
	}
	s := &Solver{name: kind, cmd: cmd, in: in, out: bufio.NewReaderSize(outp, 1<<20), defined: map[int]bool{}, timeoutMs: timeoutMs}
	if kind == "cvc5" {
		s.send("(set-logic ALL)\n")
	} else {
		s.send(fmt.Sprintf("(set-option :timeout %d)\n", timeoutMs))
	}
	return s, nil
}

func (s *Solver) Close() {
	if s == nil || s.cmd == nil {
		return
	}
	s.in.Close()
	done := make(chan struct{})
	go func() { s.cmd.Wait(); close(done) }()
	select {
	case <-done:
	case <-time.After(2 * time.Second):
		s.cmd.Process.Kill()
	}
	s.cmd = nil
}

func (s *Solver) send(str string) {
	if s.log != nil {
		io.WriteString(s.log, str)
	}
	io.WriteString(s.in, str)
}

// define emits declarations/definitions for t and everything below it.
func (s *Solver) define(t *Term, sb *strings.Builder) {
	if t.op == OpConst || s.defined[t.id] {
		return
	}
	// iterative post-order to avoid deep recursion
	type fr struct {
		t *Term
		i int
	}
	stack := []fr{{t, 0}}
	for len(stack) > 0 {
		f := &stack[len(stack)-1]
		if f.t.op == OpConst || s.defined[f.t.id] {
			stack = stack[:len(stack)-1]
			continue
		}
		if f.i < len(f.t.args) {
			a := f.t.args[f.i]
			f.i++
			if a.op != OpConst && !s.defined[a.id] {
				stack = append(stack, fr{a, 0})
			}
			continue
		}
		tt := f.t
		if tt.op == OpVar {
			fmt.Fprintf(sb, "(declare-const %s %s)\n", tt.name, tt.sort)
		} else {
			fmt.Fprintf(sb, "(define-fun t%d () %s %s)\n", tt.id, tt.sort, tt.defBody())
		}
		s.defined[tt.id] = true
		stack = stack[:len(stack)-1]
	}
}

func (s *Solver) readUntilMarker() []string {
	var lines []string
	for {
		line, err := s.out.ReadString('\n')
		line = strings.TrimRight(line, "\r\n")
		if line == "VERIF-DONE" || line == "\"VERIF-DONE\"" {
			return lines
		}
		if line != "" {
			lines = append(lines, line)
		}
		if err != nil {
			lines = append(lines, "(error \"solver died: "+err.Error()+"\")")
			return lines
		}
	}
}

// Check decides satisfiability of the conjunction of asserts. If wantModel is
// non-empty and the result is sat, the values of those terms are returned.
func (s *Solver) Check(asserts []*Term, wantModel []*Term) (Result, map[*Term]uint64) {
	start := time.Now()
	var sb strings.Builder
	for _, a := range asserts {
		s.define(a, &sb)
	}
	for _, m := range wantModel {
		s.define(m, &sb)
	}
	sb.WriteString("(push 1)\n")
	for _, a := range asserts {
		fmt.Fprintf(&sb, "(assert %s)\n", a.leafString())
	}
	sb.WriteString("(check-sat)\n(echo \"VERIF-DONE\")\n")
	s.send(sb.String())
	lines := s.readUntilMarker()
	res := Unknown
	bad := false
	for _, l := range lines {
		switch {
		case l == "sat":
			res = Sat
		case l == "unsat":
			res = Unsat
		case l == "unknown":
			res = Unknown
		case strings.HasPrefix(l, "(error"):
			bad = true
			s.Errors = append(s.Errors, l)
		}
	}
	if bad {
		res = Unknown
	}
	var model map[*Term]uint64
	if res == Sat && len(wantModel) > 0 {
		model = map[*Term]uint64{}
		const chunk = 200
		for i := 0; i < len(wantModel); i += chunk {
			j := i + chunk
			if j > len(wantModel) {
				j = len(wantModel)
			}
			var q strings.Builder
			q.WriteString("(get-value (")
			for _, m := range wantModel[i:j] {
				if m.sort.K == SFP {
					panic("FP-sorted term in model request (use bit-pattern variables)")
				}
				q.WriteString(m.leafString() + " ")
			}
			q.WriteString("))\n(echo \"VERIF-DONE\")\n")
			s.send(q.String())
			out := strings.Join(s.readUntilMarker(), " ")
			vals := parseGetValue(out)
			if len(vals) != j-i {
				s.Errors = append(s.Errors, fmt.Sprintf("(error \"get-value parse: got %d of %d: %.200s\")", len(vals), j-i, out))
				res = Unknown
				break
			}
			for k, m := range wantModel[i:j] {
				model[m] = vals[k]
			}
		}
	}
	s.send("(pop 1)\n")
	s.Queries++
	s.Time += time.Since(start)
	switch res {
	case Sat:
		s.nSat++
	case Unsat:
		s.nUnsat++
	default:
		s.nUnknown++
	}
	return res, model
}

// parseGetValue extracts the value literal of each (expr value) pair, in order.
func parseGetValue(s string) []uint64 {
	var vals []uint64
	// tokens of interest: #x..., #b..., true, false. Each pair ends with a value
	// literal followed by ')'. We scan pairs at depth 2.
	depth := 0
	i := 0
	pairStart := -1
	for i < len(s) {
		c := s[i]
		switch c {
		case '(':
			depth++
			if depth == 2 {
				pairStart = i
			}
		case ')':
			if depth == 2 && pairStart >= 0 {
				pair := s[pairStart+1 : i]
				// value is the last token
				pair = strings.TrimSpace(pair)
				k := strings.LastIndexAny(pair, " \t")
				tok := pair
				if k >= 0 {
					tok = pair[k+1:]
				}
				if v, ok := parseLit(tok); ok {
					vals = append(vals, v)
				} else {
					return nil
				}
				pairStart = -1
			}
			depth--
		}
		i++
	}
	return vals
}

func parseLit(tok string) (uint64, bool) {
	switch {
	case tok == "true":
		return 1, true
	case tok == "false":
		return 0, true
	case strings.HasPrefix(tok, "#x"):
		v, err := strconv.ParseUint(tok[2:], 16, 64)
		return v, err == nil
	case strings.HasPrefix(tok, "#b"):
		v, err := strconv.ParseUint(tok[2:], 2, 64)
		return v, err == nil
	}
	return 0, false
}
