package main

import (
	"crypto/sha256"
	"encoding/hex"
	"encoding/json"
	"flag"
	"fmt"
	"go/types"
	"os"
	"os/exec"
	"path/filepath"
	"regexp"
	"runtime/debug"
	"sort"
	"strings"
	"sync"
	"time"

	"golang.org/x/tools/go/packages"
	"golang.org/x/tools/go/ssa"
	"golang.org/x/tools/go/ssa/ssautil"
)

// repoDir is the tree under check and outDir receives build output, evidence and replays.
// Both are fixed for every registered command; VERIF_REPO / VERIF_OUTDIR exist only so that
// seeded changes can be tried on scratch copies in parallel while developing harnesses.
var repoDir = envOr("VERIF_REPO", "/repo")
var outDir = envOr("VERIF_OUTDIR", "/verif")

const verifDir = "/verif"

func envOr(k, d string) string {
	if v := os.Getenv(k); v != "" {
		return v
	}
	return d
}

type HarnessResult struct {
	Name         string          `json:"name"`
	Stats        Stats           `json:"stats"`
	Violations   []Violation     `json:"violations,omitempty"`
	Known        []Violation     `json:"known,omitempty"`
	Inconclusive []string        `json:"inconclusive,omitempty"`
	Functions    []string        `json:"functions"`
	Stubs        map[string]int  `json:"stubs"`
	Queries      int             `json:"queries"`
	SolverS      float64         `json:"solver_s"`
	WallS        float64         `json:"wall_s"`
	Sat          int             `json:"sat"`
	UnsatN       int             `json:"unsat"`
	UnknownN     int             `json:"unknown"`
	Validations  []ValidationVec `json:"-"`
	EngineError  string          `json:"engine_error,omitempty"`
	SolverErrors []string        `json:"solver_errors,omitempty"`
	Unwind       int             `json:"unwind_bound"`
	GoCalls      int             `json:"-"`
}

type KnownFinding struct {
	Property string `json:"property"`
	Harness  string `json:"harness"`
	Msg      string `json:"msg"`
	Status   string `json:"status"` // "open" | "fixed"
	Commit   string `json:"commit,omitempty"`
	What     string `json:"what"`
}

func loadKnown() []KnownFinding {
	var k []KnownFinding
	b, err := os.ReadFile(filepath.Join(verifDir, "known_findings.json"))
	if err != nil {
		return nil
	}
	if err := json.Unmarshal(b, &k); err != nil {
		fmt.Fprintln(os.Stderr, "known_findings.json:", err)
		os.Exit(2)
	}
	return k
}

func harnessFiles() []string {
	files, _ := filepath.Glob(filepath.Join(envOr("VERIF_HARNESS", filepath.Join(verifDir, "harness")), "*.go"))
	sort.Strings(files)
	return files
}

func overlayName(f string) string {
	base := filepath.Base(f)
	if strings.HasSuffix(base, "_test.go") {
		return filepath.Join(repoDir, "zz_verif_"+base)
	}
	return filepath.Join(repoDir, "zz_verif_"+base)
}

var goLoopRe = regexp.MustCompile(`(?m)^(\s*)go ((?:a|assoc)\.(?:readLoop|writeLoop|timerLoop))\(\)([ \t]*//.*)?$`)

// patchedSources returns overlay replacements of repository files, regenerated from
// the working tree on every run: the statements that start the association's
// background loops are routed through vGo (a no-op in harness runs), so that native
// replays are as sequential as the symbolic execution, which never runs goroutines.
// Lock fields retyped to the rank-tracking wrappers of harness/vlib_sync.go (C20 lock hierarchy).
var lockTypeRes = map[string][]struct {
	re   *regexp.Regexp
	repl string
}{
	"association.go": {
		{regexp.MustCompile(`(?m)^(\tlock\s+)sync\.RWMutex([ \t]*//.*)?$`), "${1}vLkAssoc${2}"},
		{regexp.MustCompile(`(?m)^(\ttimerMu\s+)sync\.Mutex([ \t]*//.*)?$`), "${1}vLkTimer${2}"},
	},
	"stream.go": {
		{regexp.MustCompile(`(?m)^(\tlock\s+)sync\.RWMutex([ \t]*//.*)?$`), "${1}vLkStream${2}"},
		{regexp.MustCompile(`(?m)^(\twriteLock\s+)sync\.Mutex([ \t]*//.*)?$`), "${1}vLkWrite${2}"},
		// the read-deadline goroutine is queued instead of started: harnesses run it at the
		// point of the scenario where the deadline passes (vRunSpawned)
		{regexp.MustCompile(`(?m)^(\s*)go func\(readTimeoutCancel chan struct\{\}\) \{$`), "${1}vSpawnCh(func(readTimeoutCancel chan struct{}) {"},
		{regexp.MustCompile(`(?m)^(\s*)\}\(s\.readTimeoutCancel\)$`), "${1}}, s.readTimeoutCancel)"},
	},
}

func patchedSources() map[string][]byte {
	out := map[string][]byte{}
	for _, f := range []string{"association.go", "stream.go"} {
		path := filepath.Join(repoDir, f)
		b, err := os.ReadFile(path)
		if err != nil {
			continue
		}
		nb := b
		if f == "association.go" {
			nb = goLoopRe.ReplaceAll(nb, []byte("${1}vGo(${2})${3}"))
		}
		for _, r := range lockTypeRes[f] {
			nb = r.re.ReplaceAll(nb, []byte(r.repl))
		}
		if string(nb) != string(b) {
			out[path] = nb
		}
	}
	return out
}

func loadProgram(extra map[string][]byte) (*ssa.Program, *ssa.Package, error) {
	overlay := map[string][]byte{}
	for k, v := range patchedSources() {
		overlay[k] = v
	}
	for _, f := range harnessFiles() {
		if strings.HasSuffix(f, "_test.go") {
			continue
		}
		b, err := os.ReadFile(f)
		if err != nil {
			return nil, nil, err
		}
		overlay[overlayName(f)] = b
	}
	for k, v := range extra {
		overlay[k] = v
	}
	cfg := &packages.Config{
		Mode:       packages.LoadAllSyntax,
		Dir:        repoDir,
		Overlay:    overlay,
		BuildFlags: []string{"-tags=verif"},
		Env:        append(os.Environ(), "GOFLAGS=-mod=mod", "GOPROXY=off", "GOTOOLCHAIN=local"),
	}
	pkgs, err := packages.Load(cfg, ".")
	if err != nil {
		return nil, nil, err
	}
	if len(pkgs) != 1 {
		return nil, nil, fmt.Errorf("expected 1 package, got %d", len(pkgs))
	}
	if len(pkgs[0].Errors) > 0 {
		var sb strings.Builder
		for _, e := range pkgs[0].Errors {
			sb.WriteString(e.Error() + "\n")
		}
		return nil, nil, fmt.Errorf("package errors:\n%s", sb.String())
	}
	prog, spkgs := ssautil.AllPackages(pkgs, ssa.InstantiateGenerics)
	prog.Build()
	return prog, spkgs[0], nil
}

func newEngine(prog *ssa.Program, pkg *ssa.Package, tier int, solverKind string, qTimeoutMs int) (*Engine, error) {
	s, err := NewSolver(solverKind, qTimeoutMs)
	if err != nil {
		return nil, err
	}
	e := &Engine{
		prog: prog, pkg: pkg, ts: NewTermStore(), solver: s,
		unwind: 8, maxSteps: 5_000_000, tier: tier,
		params:    map[string]int{},
		funcsSeen: map[*ssa.Function]bool{}, stubsUsed: map[string]int{},
		mergeInfo: map[*ssa.BasicBlock]*mergeRegion{}, pureFn: map[*ssa.Function]int{},
		pdomCache: map[*ssa.Function]map[*ssa.BasicBlock]*ssa.BasicBlock{},
		knownTags: map[string]bool{}, knownHit: map[string]*Violation{},
		stopAtFirst: true, wantValid: 3,
	}
	e.stats.Covers = map[string]int{}
	return e, nil
}

func funcHash(prog *ssa.Program, fn *ssa.Function) string {
	if fn.Syntax() == nil {
		return ""
	}
	p1 := prog.Fset.Position(fn.Syntax().Pos())
	p2 := prog.Fset.Position(fn.Syntax().End())
	b, err := os.ReadFile(p1.Filename)
	if err != nil || p2.Offset > len(b) {
		return ""
	}
	h := sha256.Sum256(b[p1.Offset:p2.Offset])
	return hex.EncodeToString(h[:4])
}

func runHarness(prog *ssa.Program, pkg *ssa.Package, fn *ssa.Function, tier int, known []KnownFinding, opts runOpts) (res HarnessResult) {
	start := time.Now()
	res.Name = fn.Name()
	pool := NewWorkPool()
	nw := opts.workers
	engines := make([]*Engine, nw)
	errs := make([]string, nw)
	var wg sync.WaitGroup
	var first sync.Once
	for w := 0; w < nw; w++ {
		wg.Add(1)
		go func(w int) {
			defer wg.Done()
			// a worker (and its solver process) is created only once there is work for it
			firstPrefix, ok := pool.pop()
			if !ok {
				return
			}
			e, err := newEngine(prog, pkg, tier, opts.solver, opts.qTimeoutMs)
			if err != nil {
				errs[w] = err.Error()
				pool.done()
				pool.halt()
				return
			}
			engines[w] = e
			e.pool = pool
			e.altKind = opts.alt
			for _, k := range known {
				if k.Harness == fn.Name() && k.Status == "open" {
					e.knownTags[k.Msg] = true
				}
			}
			for k, v := range opts.params {
				e.params[k] = v
			}
			e.deadline = start.Add(opts.harnessBudget)
			e.maxPaths = opts.maxPaths
			e.wantValid = opts.wantValid
			e.debug = opts.debug
			if opts.debug {
				first.Do(func() {
					os.MkdirAll(filepath.Join(outDir, "build"), 0o755)
					if f, err := os.Create(filepath.Join(outDir, "build", fn.Name()+".smt2")); err == nil {
						e.solver.log = f
					}
				})
			}
			defer func() {
				if r := recover(); r != nil {
					switch x := r.(type) {
					case engineError:
						errs[w] = x.msg
					default:
						errs[w] = fmt.Sprintf("%v\n%s", r, debug.Stack())
					}
					pool.halt()
				}
			}()
			e.RunWorker(fn, firstPrefix)
		}(w)
	}
	wg.Wait()
	res.Stats.Covers = map[string]int{}
	res.Stubs = map[string]int{}
	fnSeen := map[string]bool{}
	knownSeen := map[string]bool{}
	for w, e := range engines {
		if errs[w] != "" && res.EngineError == "" {
			res.EngineError = errs[w]
		}
		if e == nil {
			continue
		}
		st := e.stats
		res.Stats.Paths += st.Paths
		res.Stats.PathsDone += st.PathsDone
		res.Stats.PathsBlocked += st.PathsBlocked
		res.Stats.Infeasible += st.Infeasible
		res.Stats.Instrs += st.Instrs
		res.Stats.Forks += st.Forks
		res.Stats.Merges += st.Merges
		res.Stats.MergeAborts += st.MergeAborts
		res.Stats.Asserts += st.Asserts
		res.Stats.AssertQ += st.AssertQ
		res.Stats.VCs += st.VCs
		res.Stats.VCQ += st.VCQ
		res.Stats.Unknowns += st.Unknowns
		res.Stats.Unwind += st.Unwind
		res.Stats.CacheHits += st.CacheHits
		res.Stats.AltQueries += st.AltQueries
		for k, v := range st.Covers {
			res.Stats.Covers[k] += v
		}
		res.Violations = append(res.Violations, e.violations...)
		for k, v := range e.knownHit {
			if !knownSeen[k] {
				knownSeen[k] = true
				res.Known = append(res.Known, *v)
			}
		}
		res.Inconclusive = append(res.Inconclusive, e.inconclusive...)
		for f := range e.funcsSeen {
			if f.Pkg == pkg && !strings.HasPrefix(f.Name(), "vh_") {
				fnSeen[f.String()+"#"+funcHash(prog, f)] = true
			}
		}
		for k, v := range e.stubsUsed {
			res.Stubs[k] += v
		}
		for _, s := range []*Solver{e.solver, e.alt} {
			if s == nil {
				continue
			}
			res.Queries += s.Queries
			res.SolverS += s.Time.Seconds()
			res.Sat += s.nSat
			res.UnsatN += s.nUnsat
			res.SolverErrors = append(res.SolverErrors, s.Errors...)
			s.Close()
		}
		res.UnknownN += st.Unknowns
		if len(res.Validations) < opts.wantValid {
			res.Validations = append(res.Validations, e.validations...)
		}
		res.Unwind = e.unwind
		if e.solver.log != nil {
			if f, ok := e.solver.log.(*os.File); ok {
				f.Close()
			}
		}
	}
	for f := range fnSeen {
		res.Functions = append(res.Functions, f)
	}
	sort.Strings(res.Functions)
	if len(res.SolverErrors) > 0 {
		res.Inconclusive = append(res.Inconclusive, fmt.Sprintf("%d solver error lines (first: %s)", len(res.SolverErrors), res.SolverErrors[0]))
	}
	res.WallS = time.Since(start).Seconds()
	return
}

type runOpts struct {
	solver        string
	alt           string
	workers       int
	qTimeoutMs    int
	harnessBudget time.Duration
	maxPaths      int
	wantValid     int
	params        map[string]int
	debug         bool
}

func findHarnesses(pkg *ssa.Package, prop, only string) []*ssa.Function {
	var out []*ssa.Function
	for name, m := range pkg.Members {
		fn, ok := m.(*ssa.Function)
		if !ok {
			continue
		}
		if only != "" {
			if name == only {
				out = append(out, fn)
			}
			continue
		}
		if strings.HasPrefix(name, "vh_"+prop+"_") {
			out = append(out, fn)
		}
	}
	sort.Slice(out, func(i, j int) bool { return out[i].Name() < out[j].Name() })
	return out
}

func allHarnessNames(pkg *ssa.Package) []string {
	var out []string
	for name, m := range pkg.Members {
		if fn, ok := m.(*ssa.Function); ok && strings.HasPrefix(name, "vh_") && fn.Signature.Params().Len() == 0 {
			out = append(out, name)
		}
	}
	sort.Strings(out)
	return out
}

func main() {
	prop := flag.String("prop", "", "property id (e.g. C05)")
	tierS := flag.String("tier", "quick", "quick|thorough")
	only := flag.String("only", "", "run only this harness function")
	solver := flag.String("solver", "z3-new", "z3|z3-new|cvc5")
	alt := flag.String("alt", "cvc5", "fallback solver on unknown (empty = none)")
	qto := flag.Int("qtimeout", 0, "per-query timeout ms")
	budget := flag.Duration("budget", 0, "per-harness time budget")
	par := flag.Int("j", 16, "parallel harnesses")
	workers := flag.Int("w", 12, "max workers per harness")
	replay := flag.String("replay", "", "replay file")
	noNative := flag.Bool("nonative", false, "skip native validation/replay")
	debugF := flag.Bool("debug", false, "debug output")
	nomerge := flag.Bool("nomerge", false, "disable if-conversion")
	flag.Parse()
	os.Setenv("PATH", "/opt/veriftools/go1.26.8/bin:"+os.Getenv("PATH"))
	os.Setenv("GOTOOLCHAIN", "local")
	os.Setenv("GOFLAGS", "-mod=mod")
	os.Setenv("GOPROXY", "off")

	if *replay != "" {
		os.Exit(replayFile(*replay))
	}
	if *prop == "" && *only == "" {
		fmt.Fprintln(os.Stderr, "need -prop or -only")
		os.Exit(2)
	}
	tier := 0
	if *tierS == "thorough" {
		tier = 1
	}
	if env := os.Getenv("VERIF_TIER"); env == "thorough" && *tierS == "" {
		tier = 1
	}
	seed := 0
	fmt.Sscanf(os.Getenv("VERIF_SEED"), "%d", &seed)
	opts := runOpts{solver: *solver, alt: *alt, workers: *workers, qTimeoutMs: *qto, harnessBudget: *budget, wantValid: 3, params: map[string]int{}, debug: *debugF}
	if opts.qTimeoutMs == 0 {
		opts.qTimeoutMs = 30000
		if tier == 1 {
			opts.qTimeoutMs = 120000
		}
	}
	if opts.harnessBudget == 0 {
		opts.harnessBudget = 8 * time.Minute
		if tier == 1 {
			opts.harnessBudget = 40 * time.Minute
		}
	}
	if os.Getenv("VERIF_NOSHORT") != "" {
		opts.params["noshort"] = 1
	}
	if *nomerge {
		opts.params["nomerge"] = 1
	}
	start := time.Now()
	prog, pkg, err := loadProgram(nil)
	if err != nil {
		fmt.Fprintln(os.Stderr, "load error:", err)
		os.Exit(2)
	}
	loadS := time.Since(start).Seconds()
	p := *prop
	if p == "" {
		parts := strings.Split(*only, "_")
		if len(parts) >= 2 {
			p = parts[1]
		}
	}
	hs := findHarnesses(pkg, p, *only)
	if len(hs) == 0 {
		fmt.Fprintf(os.Stderr, "no harness found for %s %s\n", p, *only)
		os.Exit(2)
	}
	known := loadKnown()
	results := make([]HarnessResult, len(hs))
	var wg sync.WaitGroup
	sem := make(chan struct{}, *par)
	for i, h := range hs {
		wg.Add(1)
		go func(i int, h *ssa.Function) {
			defer wg.Done()
			sem <- struct{}{}
			defer func() { <-sem }()
			results[i] = runHarness(prog, pkg, h, tier, known, opts)
			r := &results[i]
			fmt.Fprintf(os.Stderr, "[%s] paths=%d done=%d blocked=%d infeasible=%d forks=%d merges=%d/%d asserts=%d vcs=%d queries=%d (sat %d unsat %d unknown %d, cache %d) solver=%.1fs wall=%.1fs viol=%d known=%d inconcl=%d\n",
				r.Name, r.Stats.Paths, r.Stats.PathsDone, r.Stats.PathsBlocked, r.Stats.Infeasible, r.Stats.Forks, r.Stats.Merges, r.Stats.MergeAborts,
				r.Stats.Asserts, r.Stats.VCs, r.Queries, r.Sat, r.UnsatN, r.UnknownN, r.Stats.CacheHits, r.SolverS, r.WallS, len(r.Violations), len(r.Known), len(r.Inconclusive))
			if opts.debug {
				fmt.Fprintf(os.Stderr, "[%s] covers: %v\n", r.Name, r.Stats.Covers)
			}
			if r.EngineError != "" {
				fmt.Fprintf(os.Stderr, "[%s] ENGINE ERROR: %s\n", r.Name, r.EngineError)
			}
			for _, s := range r.Inconclusive {
				fmt.Fprintf(os.Stderr, "[%s] inconclusive: %s\n", r.Name, s)
			}
			for _, v := range r.Violations {
				fmt.Fprintf(os.Stderr, "[%s] candidate violation (%s): %s\n    at %s\n", r.Name, v.Kind, v.Msg, v.Where)
			}
		}(i, h)
	}
	wg.Wait()
	code := finish(p, tier, seed, *only != "", results, known, allHarnessNames(pkg), loadS, time.Since(start), *noNative)
	os.Exit(code)
}

// ---------------------------------------------------------------- native runs

type nativeCase struct {
	Harness  string     `json:"harness"`
	Vector   []VecEntry `json:"vector"`
	Realtime bool       `json:"realtime"`
	Tier     int        `json:"tier"`
	Hang     bool       `json:"hang"` // expected to block: run alone in its own process under a short watchdog
	Skip     bool       `json:"skip"`
	Race     bool       `json:"race"` // lockset report: run alone under the race detector
	Shared   bool       `json:"shared"` // ... the report is a store under a read lock: the touchers only read, under read locks
}

type nativeOut struct {
	Idx     int      `json:"idx"`
	Outcome string   `json:"outcome"` // ok | assert | panic | assume | exhausted
	Msg     string   `json:"msg"`
	Obs     []ObsVal `json:"obs"`
	Covers  []string `json:"covers"`
}

func goEnv() []string {
	env := os.Environ()
	env = append(env, "PATH=/opt/veriftools/go1.26.8/bin:"+os.Getenv("PATH"), "GOTOOLCHAIN=local", "GOFLAGS=-mod=mod", "GOPROXY=off")
	return env
}

func runNative(cases []nativeCase, names []string, tag string) ([]nativeOut, string, error) {
	buildDir := filepath.Join(outDir, "build", tag)
	os.MkdirAll(buildDir, 0o755)
	// registry
	var sb strings.Builder
	sb.WriteString("//go:build verif\n\npackage sctp\n\nvar vHarnesses = map[string]func(){\n")
	for _, n := range names {
		fmt.Fprintf(&sb, "\t%q: %s,\n", n, n)
	}
	sb.WriteString("}\n")
	reg := filepath.Join(buildDir, "registry.go")
	os.WriteFile(reg, []byte(sb.String()), 0o644)
	repl := map[string]string{filepath.Join(repoDir, "zz_verif_registry.go"): reg}
	for path, content := range patchedSources() {
		pf := filepath.Join(buildDir, "patched_"+filepath.Base(path))
		os.WriteFile(pf, content, 0o644)
		repl[path] = pf
	}
	for _, f := range harnessFiles() {
		repl[overlayName(f)] = f
	}
	ov, _ := json.Marshal(map[string]interface{}{"Replace": repl})
	ovPath := filepath.Join(buildDir, "overlay.json")
	os.WriteFile(ovPath, ov, 0o644)
	casesPath := filepath.Join(buildDir, "cases.json")
	cb, _ := json.Marshal(cases)
	os.WriteFile(casesPath, cb, 0o644)
	outPath := filepath.Join(buildDir, "out.jsonl")
	os.Remove(outPath)
	args := []string{"test", "-tags", "verif", "-vet=off", "-count=1", "-timeout", "20m", "-run", "^TestVerifReplay$", "-overlay", ovPath}
	if len(cases) == 1 && cases[0].Race {
		args = append(args, "-race")
	}
	cmd := exec.Command("go", append(args, ".")...)
	cmd.Dir = repoDir
	cmd.Env = append(goEnv(), "VERIF_CASES="+casesPath, "VERIF_OUT="+outPath)
	outb, err := cmd.CombinedOutput()
	log := string(outb)
	data, rerr := os.ReadFile(outPath)
	if rerr != nil {
		return nil, log, fmt.Errorf("native run produced no output (%v): %v", err, rerr)
	}
	var outs []nativeOut
	for _, line := range strings.Split(strings.TrimSpace(string(data)), "\n") {
		if line == "" {
			continue
		}
		var o nativeOut
		if err := json.Unmarshal([]byte(line), &o); err != nil {
			return nil, log, fmt.Errorf("bad native output line %q", line)
		}
		outs = append(outs, o)
	}
	return outs, log, nil
}

// sharedStore: the lockset report is a store made with the lock held in shared mode only.
func sharedStore(kind, msg string) bool {
	return kind == "unguarded" && strings.Contains(msg, "under a read lock")
}

// raceConfirms: the race detector reported a race, and the function in which the engine saw
// the unguarded access appears in the report.
func raceConfirms(log, where string) bool {
	if !strings.Contains(log, "WARNING: DATA RACE") {
		return false
	}
	fn := strings.TrimSpace(where)
	if i := strings.Index(fn, " "); i > 0 {
		fn = fn[:i]
	}
	if i := strings.LastIndex(fn, "."); i >= 0 {
		fn = fn[i+1:]
	}
	fn = strings.TrimRight(fn, "0123456789$") // closures: func1 -> func
	return fn == "" || strings.Contains(log, "."+fn)
}

// raceSummary extracts the first two frames of the first race report.
func raceSummary(log string) string {
	i := strings.Index(log, "WARNING: DATA RACE")
	if i < 0 {
		return ""
	}
	lines := strings.Split(log[i:], "\n")
	var out []string
	for _, l := range lines[1:] {
		l = strings.TrimSpace(l)
		if strings.HasPrefix(l, "github.com/pion/sctp.") {
			out = append(out, l)
			if len(out) == 2 {
				break
			}
		}
	}
	return "race detector: " + strings.Join(out, " <- ")
}

type replayDoc struct {
	Property string     `json:"property"`
	Harness  string     `json:"harness"`
	Kind     string     `json:"kind"`
	Msg      string     `json:"msg"`
	Where    string     `json:"where"`
	Vector   []VecEntry `json:"vector"`
	Native   string     `json:"native_outcome"`
	Tier     int        `json:"tier"`
}

func replayFile(path string) int {
	b, err := os.ReadFile(path)
	if err != nil {
		fmt.Fprintln(os.Stderr, err)
		return 2
	}
	var d replayDoc
	if err := json.Unmarshal(b, &d); err != nil {
		fmt.Fprintln(os.Stderr, err)
		return 2
	}
	_, pkg, err := loadProgram(nil)
	if err != nil {
		fmt.Fprintln(os.Stderr, err)
		return 2
	}
	outs, log, err := runNative([]nativeCase{{Harness: d.Harness, Vector: d.Vector, Realtime: true, Tier: d.Tier, Hang: d.Kind == "blocked", Race: d.Kind == "unguarded", Shared: sharedStore(d.Kind, d.Msg)}}, allHarnessNames(pkg), "replay")
	if err != nil {
		fmt.Fprintln(os.Stderr, err, log)
		return 2
	}
	for _, o := range outs {
		fmt.Printf("native replay of %s: outcome=%s msg=%s\n", d.Harness, o.Outcome, o.Msg)
		if d.Kind == "unguarded" && raceConfirms(log, d.Where) {
			o.Outcome = "race"
		}
		if o.Outcome == "assert" || o.Outcome == "panic" || (d.Kind == "blocked" && o.Outcome == "hang") || (d.Kind == "unguarded" && o.Outcome == "race") {
			fmt.Printf("VIOLATION property=%s replay=%s\n", d.Property, path)
			return 1
		}
	}
	return 0
}

// ---------------------------------------------------------------- reporting

func finish(prop string, tier, seed int, partial bool, results []HarnessResult, known []KnownFinding, names []string, loadS float64, wall time.Duration, noNative bool) int {
	tierName := []string{"quick", "thorough"}[tier]
	exit := 0
	if !partial {
		os.RemoveAll(filepath.Join(outDir, "replays", prop))
	}
	internal := false
	// collect native cases: validations + violation replays
	var cases []nativeCase
	type caseRef struct {
		res  *HarnessResult
		val  *ValidationVec
		viol *Violation
		knwn bool
	}
	var refs []caseRef
	for i := range results {
		r := &results[i]
		for j := range r.Validations {
			cases = append(cases, nativeCase{Harness: r.Name, Vector: r.Validations[j].Vector, Tier: tier})
			refs = append(refs, caseRef{res: r, val: &r.Validations[j]})
		}
		for j := range r.Violations {
			blk, race := r.Violations[j].Kind == "blocked", r.Violations[j].Kind == "unguarded"
			cases = append(cases, nativeCase{Harness: r.Name, Vector: r.Violations[j].Vector, Realtime: true, Tier: tier, Hang: blk, Race: race, Shared: sharedStore(r.Violations[j].Kind, r.Violations[j].Msg), Skip: blk || race})
			refs = append(refs, caseRef{res: r, viol: &r.Violations[j]})
		}
		for j := range r.Known {
			blk, race := r.Known[j].Kind == "blocked", r.Known[j].Kind == "unguarded"
			cases = append(cases, nativeCase{Harness: r.Name, Vector: r.Known[j].Vector, Realtime: true, Tier: tier, Hang: blk, Race: race, Shared: sharedStore(r.Known[j].Kind, r.Known[j].Msg), Skip: blk || race})
			refs = append(refs, caseRef{res: r, viol: &r.Known[j], knwn: true})
		}
		if r.EngineError != "" {
			internal = true
		}
	}
	validated, valMismatch := 0, 0
	var outLines []string
	var violationsConfirmed int
	var knownLines []string
	var mismatches []string
	if len(cases) > 0 && !noNative {
		outs, log, err := runNative(cases, names, prop+"-"+tierName)
		if err != nil {
			fmt.Fprintf(os.Stderr, "native run failed: %v\n%s\n", err, tail(log, 3000))
			internal = true
		} else {
			byIdx := map[int]nativeOut{}
			for _, o := range outs {
				byIdx[o.Idx] = o
			}
			// counterexamples that end in a call blocking forever are replayed one per process
			solo := 0
			for i, c := range cases {
				if !c.Skip {
					continue
				}
				if solo >= 4 && refs[i].viol != nil && !refs[i].knwn {
					// each solo replay costs a process start (and 5 s for a hang): four
					// confirmed counterexamples of one run are reported, further ones dropped
					byIdx[i] = nativeOut{Idx: i, Outcome: "dropped"}
					continue
				}
				solo++
				c.Skip = false
				o1, log1, err1 := runNative([]nativeCase{c}, names, prop+"-"+tierName+"-solo")
				if err1 != nil || len(o1) != 1 {
					fmt.Fprintf(os.Stderr, "native solo run failed: %v\n%s\n", err1, tail(log1, 2000))
					continue
				}
				if c.Race && raceConfirms(log1, refs[i].viol.Where) {
					o1[0].Outcome, o1[0].Msg = "race", raceSummary(log1)
				}
				o1[0].Idx = i
				byIdx[i] = o1[0]
			}
			for i, ref := range refs {
				o, ok := byIdx[i]
				if !ok {
					fmt.Fprintf(os.Stderr, "native case %d (%s) missing from output\n%s\n", i, ref.res.Name, tail(log, 2000))
					internal = true
					continue
				}
				switch {
				case ref.val != nil:
					same := o.Outcome == "ok" && len(o.Obs) == len(ref.val.Obs)
					if same {
						for k := range o.Obs {
							if o.Obs[k] != ref.val.Obs[k] {
								same = false
							}
						}
					}
					if same {
						validated++
					} else {
						valMismatch++
						mismatches = append(mismatches, fmt.Sprintf("%s: engine obs=%v native outcome=%s msg=%s obs=%v vector=%v", ref.res.Name, ref.val.Obs, o.Outcome, o.Msg, o.Obs, ref.val.Vector))
					}
				case ref.viol != nil:
					reproduced := o.Outcome == "assert" || o.Outcome == "panic"
					if ref.viol.Kind == "blocked" {
						reproduced = o.Outcome == "hang"
					}
					if ref.viol.Kind == "unguarded" {
						reproduced = o.Outcome == "race"
					}
					if ref.viol.Kind == "work" {
						reproduced = o.Outcome == "assert" && o.Msg == ref.viol.Msg
					}
					d := replayDoc{Tier: tier, Property: prop, Harness: ref.res.Name, Kind: ref.viol.Kind, Msg: ref.viol.Msg, Where: ref.viol.Where, Vector: ref.viol.Vector, Native: o.Outcome + ": " + o.Msg}
					if o.Outcome == "dropped" {
						continue
					}
					if ref.knwn {
						what := ref.viol.Msg
						for _, k := range known {
							if k.Harness == ref.res.Name && k.Msg == ref.viol.Msg {
								what = k.What
							}
						}
						if reproduced {
							outLines = append(outLines, fmt.Sprintf("KNOWN-FINDING: property=%s %s [%s: %s]", prop, what, ref.res.Name, ref.viol.Msg))
							knownLines = append(knownLines, ref.res.Name+": "+ref.viol.Msg)
						} else {
							fmt.Fprintf(os.Stderr, "known finding %s/%s: solver counterexample did not replay natively (%s %s)\n", ref.res.Name, ref.viol.Msg, o.Outcome, o.Msg)
							internal = true
						}
						continue
					}
					if reproduced {
						h := sha256.Sum256([]byte(fmt.Sprintf("%v", ref.viol.Vector)))
						dir := filepath.Join(outDir, "replays", prop)
						os.MkdirAll(dir, 0o755)
						path := filepath.Join(dir, fmt.Sprintf("%s-%s.json", ref.res.Name, hex.EncodeToString(h[:4])))
						b, _ := json.MarshalIndent(d, "", " ")
						os.WriteFile(path, b, 0o644)
						outLines = append(outLines, fmt.Sprintf("VIOLATION property=%s replay=%s", prop, path))
						fmt.Fprintf(os.Stderr, "violation confirmed natively: %s: %s (%s)\n", ref.res.Name, ref.viol.Msg, o.Msg)
						violationsConfirmed++
						exit = 1
					} else {
						fmt.Fprintf(os.Stderr, "SPURIOUS: %s: %s — solver counterexample did not reproduce natively (native outcome %s %s); treating as internal error; vector=%v\n", ref.res.Name, ref.viol.Msg, o.Outcome, o.Msg, ref.viol.Vector)
						internal = true
					}
				}
			}
		}
	}
	if valMismatch > 0 {
		for _, m := range mismatches {
			fmt.Fprintln(os.Stderr, "translator-validation mismatch:", m)
		}
		internal = true
	}
	// vacuity: every harness must have at least one completed path with a cover
	obligations, discharged := 0, 0
	states, transitions, queries := 0, int64(0), 0
	solverS := 0.0
	var samples []interface{}
	fnSet := map[string]bool{}
	stubSet := map[string]int{}
	var inconcl []string
	var perHarness []map[string]interface{}
	for i := range results {
		r := &results[i]
		obligations++
		ok := r.EngineError == "" && len(r.Inconclusive) == 0 && len(r.Violations) == 0 && len(r.Known) == 0
		vac := r.Stats.PathsDone+r.Stats.PathsBlocked == 0 || len(r.Stats.Covers) == 0
		if vac && r.EngineError == "" && len(r.Violations) == 0 {
			fmt.Fprintf(os.Stderr, "[%s] VACUOUS: no completed path reached a vcover\n", r.Name)
			internal = true
			ok = false
		}
		if len(r.Inconclusive) > 0 {
			internal = true
			for _, s := range r.Inconclusive {
				inconcl = append(inconcl, r.Name+": "+s)
			}
		}
		if ok {
			discharged++
		}
		states += r.Stats.Paths
		transitions += r.Stats.Instrs
		queries += r.Queries
		solverS += r.SolverS
		for _, f := range r.Functions {
			fnSet[f] = true
		}
		for k, v := range r.Stubs {
			stubSet[k] += v
		}
		if len(r.Validations) > 0 {
			samples = append(samples, map[string]interface{}{"harness": r.Name, "path_vector": r.Validations[0].Vector, "observed": r.Validations[0].Obs})
		}
		perHarness = append(perHarness, map[string]interface{}{
			"harness": r.Name, "paths": r.Stats.Paths, "paths_completed": r.Stats.PathsDone, "paths_blocked": r.Stats.PathsBlocked,
			"paths_infeasible": r.Stats.Infeasible, "assertions_checked": r.Stats.Asserts, "panic_vcs_checked": r.Stats.VCs,
			"queries": r.Queries, "sat": r.Sat, "unsat": r.UnsatN, "unknown": r.UnknownN, "solver_s": round2(r.SolverS), "wall_s": round2(r.WallS),
			"covers": r.Stats.Covers, "unwind_bound": r.Unwind, "merges": r.Stats.Merges, "instructions": r.Stats.Instrs,
			"inconclusive": r.Inconclusive, "engine_error": r.EngineError, "violations": len(r.Violations), "known_findings_hit": len(r.Known),
		})
	}
	if len(samples) == 0 {
		for i := range results {
			samples = append(samples, map[string]interface{}{"harness": results[i].Name, "paths": results[i].Stats.Paths})
		}
	}
	var fns, stubs []string
	for f := range fnSet {
		fns = append(fns, f)
	}
	sort.Strings(fns)
	for s, n := range stubSet {
		if !strings.HasPrefix(s, pkgPath) {
			stubs = append(stubs, fmt.Sprintf("%s x%d", s, n))
		}
	}
	sort.Strings(stubs)
	if states == 0 {
		states = 1
	}
	if transitions == 0 {
		transitions = 1
	}
	ev := map[string]interface{}{
		"property_id": prop,
		"tier":        tierName,
		"seed":        seed,
		"level":       "model_checking",
		"coverage": map[string]interface{}{
			"states":                        states,
			"transitions":                   transitions,
			"traces_validated_against_impl": validated,
			"samples":                       samples,
			"obligations":                   obligations,
			"discharged":                    discharged,
			"functions_encoded":             fns,
			"stubs":                         stubs,
			"queries":                       queries,
			"solver_time_s":                 round2(solverS),
			"load_ssa_s":                    round2(loadS),
			"harnesses":                     perHarness,
			"inconclusive":                  inconcl,
			"violations_confirmed_natively": violationsConfirmed,
			"known_findings_reported":       knownLines,
			"explanation":                   "states = symbolic paths explored; transitions = SSA instructions interpreted; each harness is one obligation, discharged iff every assertion and panic VC on every feasible path was unsat, no unwinding assertion failed, and a vcover was reached",
			"solver":                        "z3 5.1.0 (z3-new -in), push/pop per query; cvc5 1.0 as fallback on unknown",
		},
		"assumptions": []string{
			"go/ssa lowering of the working tree is faithful; the SSA interpreter (/verif/engine) is validated on every run by replaying solver models natively and comparing observed values",
			"stubs listed in coverage.stubs behave as documented in DESIGN.md §1.4",
			"bounds are those written in each harness (shape sets, vbound unwinding) and in DESIGN.md",
		},
		"wall_s":     round2(wall.Seconds()),
		"violations": violationsConfirmed,
	}
	if !partial {
		os.MkdirAll(filepath.Join(outDir, "evidence"), 0o755)
		b, _ := json.MarshalIndent(ev, "", " ")
		os.WriteFile(filepath.Join(outDir, "evidence", prop+".json"), b, 0o644)
	}
	for _, l := range outLines {
		fmt.Println(l)
	}
	fmt.Printf("%s %s: obligations=%d discharged=%d paths=%d queries=%d solver=%.1fs validated=%d wall=%.1fs\n", prop, tierName, obligations, discharged, states, queries, solverS, validated, wall.Seconds())
	if exit == 1 {
		return 1
	}
	if internal {
		return 2
	}
	return 0
}

func round2(f float64) float64 { return float64(int(f*100)) / 100 }

func tail(s string, n int) string {
	if len(s) > n {
		return s[len(s)-n:]
	}
	return s
}

var _ = types.Typ
