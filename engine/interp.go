package main

import (
	"fmt"
	"go/constant"
	"go/token"
	"go/types"
	"os"
	"path/filepath"
	"sort"
	"strings"
	"sync"
	"time"

	"golang.org/x/tools/go/ssa"
)

type crcApp struct {
	bytes []*Term
	val   *Term
}

type pathEnd struct {
	kind string // "done" "infeasible" "violation" "blocked" "unwind" "exit"
	msg  string
}

type mergeAbort struct{ why string }

type engineError struct{ msg string }

type decision struct {
	choice int
	forked bool
}

type NondetRec struct {
	Kind  string // u8 u16 u32 u64 bool pick
	Term  *Term  // nil for concrete
	Value uint64 // concrete value (pick)
}

type Violation struct {
	Harness string
	Msg     string
	Kind    string // "assert" | "panic"
	Vector  []VecEntry
	Where   string
	Trace   []string
}

type VecEntry struct {
	Kind string `json:"k"`
	V    uint64 `json:"v"`
}

type ObsRec struct {
	Tag  string
	Term *Term
}

type ValidationVec struct {
	Harness string     `json:"harness"`
	Vector  []VecEntry `json:"vector"`
	Obs     []ObsVal   `json:"obs"`
	Covers  []string   `json:"covers"`
}

type ObsVal struct {
	Tag string `json:"tag"`
	V   uint64 `json:"v"`
}

type Frame struct {
	fn      *ssa.Function
	regs    map[ssa.Value]Value
	defers  []deferred
	visits  map[*ssa.BasicBlock]int
	prev    *ssa.BasicBlock
	result  Value
	caller  *Frame
	callPos token.Pos
}

type deferred struct {
	fv   FuncV
	args []Value
}

type Stats struct {
	Paths        int
	PathsDone    int
	PathsBlocked int
	Infeasible   int
	Instrs       int64
	Forks        int
	Merges       int
	MergeAborts  int
	Asserts      int
	AssertQ      int
	VCs          int
	VCQ          int
	Unknowns     int
	Unwind       int
	Covers       map[string]int
	CacheHits    int
	AltQueries   int
}

type Engine struct {
	prog    *ssa.Program
	pkg     *ssa.Package
	ts      *TermStore
	solver  *Solver
	alt     *Solver
	altKind string
	harness string

	// per path
	pc        []*Term
	prefix    []decision
	dpos      int
	trail     []decision
	nondets   []NondetRec
	obs       []ObsRec
	covers    []string
	globals   map[*ssa.Global]*Cell
	ghost     map[*Cell]*ghostState
	cellSeq   int
	objSeq    int
	steps     int64
	noFork    int
	stack     *Frame
	depth     int
	goCalls   []string
	tier      int
	params    map[string]int
	extGlobal map[string]*Cell

	// per harness
	pool         *WorkPool
	unwind       int
	maxSteps     int64
	maxPaths     int
	stats        Stats
	violations   []Violation
	qcache       map[string]Result
	funcsSeen    map[*ssa.Function]bool
	stubsUsed    map[string]int
	validations  []ValidationVec
	wantValid    int
	deadline     time.Time
	inconclusive []string
	mergeInfo    map[*ssa.BasicBlock]*mergeRegion
	pureFn       map[*ssa.Function]int
	pdomCache    map[*ssa.Function]map[*ssa.BasicBlock]*ssa.BasicBlock
	stopAtFirst  bool
	knownTags    map[string]bool // assertion messages that are known findings: do not stop, do not count
	knownHit     map[string]*Violation
	timeNow      *Term
	workLimit    int64 // vWorkBegin: step count at which the section has used more work than allowed
	workMsg      string
	sectionStart int64   // step count at the last vMustNotBlock
	sectionForks int     // decisions taken since the last vMustNotBlock
	goQueue      []FuncV // goroutines queued by vQueueGo: run when the harness goroutine blocks
	inGoroutine  int
	guards       map[*Cell]guardInfo // lockset discipline declared by vGuardedBy
	harnessFn    map[*ssa.Function]bool
	noBlockMsg   string // while set, a call that blocks forever is a violation (vMustNotBlock)
	clockSkew    uint64 // ns added to the concrete clock by timers that fired while waiting
	nowSeq       int
	stubOn       map[string]bool
	rttSamples   int
	crcMemo      map[string]*Term
	crcApps      []crcApp
	bitsSeq      int
	model        *Model
	pathVars     []*Term
	crcSeq       int
	rndSeq       int
	debug        bool
}

type ghostState struct {
	locked     int // mutex: 1 if write-held
	readers    int
	onceDone   bool
	signals    int
	timerArmed bool
	timerDur   *Term
	timerFn    FuncV
	closedCh   bool
	resets     int
	waiters    int // sync.Cond: goroutines parked in Wait (set by the harness)
}

func (e *Engine) fail(format string, args ...interface{}) {
	msg := fmt.Sprintf(format, args...)
	panic(engineError{msg + "\n  at " + e.where()})
}

func (e *Engine) where() string {
	var sb strings.Builder
	n := 0
	for f := e.stack; f != nil && n < 12; f = f.caller {
		pos := ""
		if f.callPos.IsValid() {
			p := e.prog.Fset.Position(f.callPos)
			pos = fmt.Sprintf(" (called at %s:%d)", shortFile(p.Filename), p.Line)
		}
		fmt.Fprintf(&sb, "%s%s <- ", f.fn.String(), pos)
		n++
	}
	return sb.String()
}

func shortFile(s string) string {
	if i := strings.LastIndex(s, "/"); i >= 0 {
		return s[i+1:]
	}
	return s
}

// ---------------------------------------------------------------- exploration

func (e *Engine) resetPath(prefix []decision) {
	e.pc = e.pc[:0]
	e.prefix = prefix
	e.dpos = 0
	e.trail = e.trail[:0]
	e.nondets = e.nondets[:0]
	e.obs = e.obs[:0]
	e.covers = e.covers[:0]
	e.globals = map[*ssa.Global]*Cell{}
	e.extGlobal = map[string]*Cell{}
	e.ghost = map[*Cell]*ghostState{}
	e.cellSeq = 0
	e.objSeq = 0
	e.steps = 0
	e.noFork = 0
	e.stack = nil
	e.depth = 0
	e.goCalls = nil
	e.timeNow = nil
	e.noBlockMsg = ""
	e.clockSkew = 0
	e.guards = nil
	e.goQueue, e.inGoroutine = nil, 0
	e.workLimit, e.workMsg = 0, ""
	if e.harnessFn == nil {
		e.harnessFn = map[*ssa.Function]bool{}
	}
	e.nowSeq, e.crcSeq, e.rndSeq, e.bitsSeq = 0, 0, 0, 0
	e.pathVars = e.pathVars[:0]
	e.crcMemo = nil
	e.stubOn = map[string]bool{}
	e.rttSamples = 0
	e.crcApps = nil
}

// WorkPool is the shared list of pending path prefixes of one harness.
type workItem struct {
	prefix []decision
	seed   map[string]uint64
}

type WorkPool struct {
	mu     sync.Mutex
	cond   *sync.Cond
	items  []workItem
	active int
	stop   bool
	paths  int
}

func NewWorkPool() *WorkPool {
	w := &WorkPool{items: []workItem{{}}}
	w.cond = sync.NewCond(&w.mu)
	return w
}

func (w *WorkPool) push(p []decision, seed map[string]uint64) {
	w.mu.Lock()
	w.items = append(w.items, workItem{p, seed})
	w.mu.Unlock()
	w.cond.Signal()
}

// pop blocks until a prefix is available; ok=false when the exploration is over.
func (w *WorkPool) pop() (workItem, bool) {
	w.mu.Lock()
	defer w.mu.Unlock()
	for {
		if w.stop {
			return workItem{}, false
		}
		if n := len(w.items); n > 0 {
			p := w.items[n-1]
			w.items = w.items[:n-1]
			w.active++
			w.paths++
			return p, true
		}
		if w.active == 0 {
			w.cond.Broadcast()
			return workItem{}, false
		}
		w.cond.Wait()
	}
}

func (w *WorkPool) done() {
	w.mu.Lock()
	w.active--
	w.mu.Unlock()
	w.cond.Broadcast()
}

func (w *WorkPool) halt() {
	w.mu.Lock()
	w.stop = true
	w.mu.Unlock()
	w.cond.Broadcast()
}

func (w *WorkPool) pending() (int, int) {
	w.mu.Lock()
	defer w.mu.Unlock()
	return len(w.items), w.paths
}

var cpuTokens = make(chan struct{}, 16)

// RunWorker explores paths of fn taken from the shared pool until it is empty.
func (e *Engine) RunWorker(fn *ssa.Function, firstPrefix workItem) {
	e.harness = fn.Name()
	e.qcache = map[string]Result{}
	haveFirst := true
	for {
		prefix, ok := firstPrefix, true
		if !haveFirst {
			prefix, ok = e.pool.pop()
		}
		haveFirst = false
		if !ok {
			return
		}
		pend, paths := e.pool.pending()
		if e.maxPaths > 0 && paths > e.maxPaths {
			e.inconclusive = append(e.inconclusive, fmt.Sprintf("path budget %d exhausted with %d prefixes pending", e.maxPaths, pend))
			e.pool.done()
			e.pool.halt()
			return
		}
		if !e.deadline.IsZero() && time.Now().After(e.deadline) {
			e.inconclusive = append(e.inconclusive, fmt.Sprintf("time budget exhausted with %d prefixes pending after %d paths", pend+1, paths))
			e.pool.done()
			e.pool.halt()
			return
		}
		cpuTokens <- struct{}{}
		end := e.runPath(fn, prefix.prefix, prefix.seed)
		<-cpuTokens
		e.stats.Paths++
		e.stats.Instrs += e.steps
		halt := false
		switch end.kind {
		case "done":
			e.stats.PathsDone++
			for _, c := range e.covers {
				e.stats.Covers[c]++
			}
			if len(e.validations) < e.wantValid {
				e.recordValidation()
			}
		case "blocked":
			e.stats.PathsBlocked++
			for _, c := range e.covers {
				e.stats.Covers[c]++
			}
		case "infeasible":
			e.stats.Infeasible++
		case "timeout":
			pend, paths := e.pool.pending()
			e.inconclusive = append(e.inconclusive, fmt.Sprintf("time budget exhausted inside a path with %d prefixes pending after %d paths", pend, paths))
			halt = true
		case "unwind":
			e.stats.Unwind++
			e.inconclusive = append(e.inconclusive, "unwinding assertion failed: "+end.msg)
		case "violation":
			if e.stopAtFirst && len(e.violations) > 0 {
				halt = true
			}
		}
		e.pool.done()
		if halt {
			e.pool.halt()
			return
		}
	}
}

func (e *Engine) runPath(fn *ssa.Function, prefix []decision, seed map[string]uint64) (end pathEnd) {
	e.resetPath(prefix)
	e.model = NewModel(seed)
	defer func() {
		if r := recover(); r != nil {
			switch x := r.(type) {
			case pathEnd:
				end = x
			case mergeAbort:
				panic(fmt.Sprintf("mergeAbort escaped: %s", x.why))
			default:
				panic(r)
			}
		}
	}()
	// package init (concrete)
	if init := e.pkg.Func("init"); init != nil {
		e.callFunction(init, nil, token.NoPos)
	}
	e.callFunction(fn, nil, token.NoPos)
	return pathEnd{kind: "done"}
}

func (e *Engine) pcKey(extra *Term) string {
	var sb strings.Builder
	for _, p := range e.pc {
		fmt.Fprintf(&sb, "%d,", p.id)
	}
	fmt.Fprintf(&sb, "|%d", extra.id)
	return sb.String()
}

func (e *Engine) addPC(t *Term) {
	if t.IsConst() {
		if t.val == 0 {
			panic(pathEnd{kind: "infeasible"})
		}
		return
	}
	// split conjunctions to keep individual asserts small
	if t.op == OpAnd {
		e.addPC(t.args[0])
		e.addPC(t.args[1])
		return
	}
	for _, p := range e.pc {
		if p == t {
			return
		}
	}
	e.pc = append(e.pc, t)
	if e.model != nil && e.model.Eval(t) != 1 {
		e.model = nil
	}
}

// newVar creates a solver variable that belongs to the current path.
func (e *Engine) newVar(name string, s Sort) *Term {
	t := e.ts.Var(name, s)
	e.pathVars = append(e.pathVars, t)
	return t
}

func (e *Engine) modelFrom(m map[*Term]uint64) map[string]uint64 {
	out := make(map[string]uint64, len(m))
	for t, v := range m {
		if t.op == OpVar {
			out[t.name] = v
		}
	}
	return out
}

// feasible decides pc ∧ c; on sat it returns a model (variable name -> value).
func (e *Engine) feasible(c *Term) (Result, map[string]uint64) {
	if len(e.pathVars) == 0 {
		r, _ := e.query(c, nil)
		return r, nil
	}
	if r, ok := e.qcache[e.pcKey(c)]; ok && r == Unsat {
		e.stats.CacheHits++
		return r, nil
	}
	r, m := e.query(c, e.pathVars)
	if r == Unsat {
		e.qcache[e.pcKey(c)] = r
	}
	if r == Sat {
		return r, e.modelFrom(m)
	}
	return r, nil
}

// query checks pc ∧ extra, with caching.
func (e *Engine) query(extra *Term, wantModel []*Term) (Result, map[*Term]uint64) {
	if extra.IsConst() && extra.val == 0 {
		return Unsat, nil
	}
	if !e.deadline.IsZero() && time.Now().After(e.deadline) {
		panic(pathEnd{kind: "timeout"})
	}
	key := ""
	if wantModel == nil {
		key = e.pcKey(extra)
		if r, ok := e.qcache[key]; ok {
			e.stats.CacheHits++
			return r, nil
		}
	}
	asserts := append(append([]*Term{}, e.pc...), extra)
	t0 := time.Now()
	var r Result
	var m map[*Term]uint64
	getAlt := func() *Solver {
		if e.alt == nil && e.altKind != "" {
			e.alt, _ = NewSolver(e.altKind, e.solver.timeoutMs)
		}
		return e.alt
	}
	if e.ts.fpUsed && e.altKind == "cvc5" && getAlt() != nil {
		// floating-point queries: cvc5 first (measured ~60x faster than z3 on the RTO lemmas), z3 as fallback
		r, m = e.alt.Check(asserts, wantModel)
		e.stats.AltQueries++
		if r == Unknown {
			r, m = e.solver.Check(asserts, wantModel)
		}
	} else {
		r, m = e.solver.Check(asserts, wantModel)
		if r == Unknown && getAlt() != nil {
			r, m = e.alt.Check(asserts, wantModel)
			e.stats.AltQueries++
		}
	}
	if d := time.Since(t0); e.debug && d > 2*time.Second {
		fmt.Fprintf(os.Stderr, "[%s] slow query %.1fs -> %v (pc=%d) at %s\n", e.harness, d.Seconds(), r, len(e.pc), e.where())
	}
	if r == Unknown {
		e.stats.Unknowns++
	}
	if key != "" {
		e.qcache[key] = r
	}
	return r, m
}

// choose picks among alternatives; conds[i] is the condition for alternative i.
func (e *Engine) choose(conds []*Term, loopKey *ssa.BasicBlock) int {
	if e.noFork > 0 {
		panic(mergeAbort{"fork inside merge"})
	}
	if e.noBlockMsg != "" && e.inGoroutine == 0 {
		e.sectionForks++
		if e.sectionForks > 256 {
			// no terminating run of the short calls made in a must-not-block section takes this
			// many decisions: a loop that makes no progress forks at every round
			e.sectionForks = 0
			e.unwindFail("more than 256 decisions inside a must-not-block section")
		}
	}
	if e.dpos < len(e.prefix) {
		d := e.prefix[e.dpos]
		e.dpos++
		e.trail = append(e.trail, d)
		e.addPC(conds[d.choice])
		if d.forked {
			e.noteFork(loopKey)
		}
		return d.choice
	}
	var feas []int
	seeds := map[int]map[string]uint64{}
	free := -1
	if e.model != nil {
		for i, c := range conds {
			if e.model.Eval(c) == 1 {
				free = i
				break
			}
		}
	}
	for i, c := range conds {
		if c.IsConst() {
			if c.val == 1 {
				feas = append(feas, i)
			}
			continue
		}
		if i == free {
			feas = append(feas, i)
			continue
		}
		r, m := e.feasible(c)
		if r != Unsat {
			feas = append(feas, i)
			seeds[i] = m
		}
	}
	if len(feas) == 0 {
		panic(pathEnd{kind: "infeasible"})
	}
	// prefer the alternative the current model already satisfies
	if free >= 0 {
		for k, f := range feas {
			if f == free {
				feas[0], feas[k] = feas[k], feas[0]
			}
		}
	}
	forked := len(feas) > 1
	base := append([]decision{}, e.trail...)
	for k := len(feas) - 1; k >= 1; k-- {
		p := append(append([]decision{}, base...), decision{feas[k], true})
		e.pool.push(p, seeds[feas[k]])
		e.stats.Forks++
	}
	d := decision{feas[0], forked}
	e.trail = append(e.trail, d)
	if seed, ok := seeds[d.choice]; ok && seed != nil && e.model == nil {
		e.model = NewModel(seed)
	}
	e.addPC(conds[d.choice])
	if forked {
		e.noteFork(loopKey)
	}
	return d.choice
}

func (e *Engine) noteFork(b *ssa.BasicBlock) {
	if b == nil || e.stack == nil {
		return
	}
	f := e.stack
	f.visits[b]++
	if f.visits[b] > e.unwind {
		e.unwindFail(fmt.Sprintf("%s block %d visited >%d times with a symbolic branch", f.fn.String(), b.Index, e.unwind))
	}
}

// branch decides a boolean condition, forking if both sides are feasible.
func (e *Engine) branch(c *Term, b *ssa.BasicBlock) bool {
	if c.IsConst() {
		return c.val == 1
	}
	return e.choose([]*Term{c, e.ts.Not(c)}, b) == 0
}

func (e *Engine) modelTerms() []*Term {
	var out []*Term
	for _, n := range e.nondets {
		if n.Term != nil {
			out = append(out, n.Term)
		}
	}
	return out
}

func (e *Engine) vectorFromModel(m map[*Term]uint64) []VecEntry {
	vec := make([]VecEntry, len(e.nondets))
	for i, n := range e.nondets {
		vec[i].Kind = n.Kind
		if n.Term != nil {
			vec[i].V = m[n.Term]
		} else {
			vec[i].V = n.Value
		}
	}
	return vec
}

func (e *Engine) recordValidation() {
	defer func() {
		if r := recover(); r != nil {
			if _, ok := r.(pathEnd); !ok {
				panic(r)
			}
		}
	}()
	want := e.modelTerms()
	for _, o := range e.obs {
		if !o.Term.IsConst() {
			want = append(want, o.Term)
		}
	}
	r, m := e.query(e.ts.True, want)
	if len(want) == 0 {
		m = map[*Term]uint64{}
		r = Sat
		if len(e.pc) > 0 {
			r, _ = e.query(e.ts.True, nil)
		}
	}
	if r != Sat {
		return
	}
	vv := ValidationVec{Harness: e.harness, Vector: e.vectorFromModel(m), Covers: append([]string{}, e.covers...)}
	for _, o := range e.obs {
		v := o.Term.val
		if !o.Term.IsConst() {
			v = m[o.Term]
		}
		vv.Obs = append(vv.Obs, ObsVal{o.Tag, v})
	}
	e.validations = append(e.validations, vv)
}

// violationAt is called when bad is satisfiable under pc.
func (e *Engine) reportViolation(kind, msg string, model map[*Term]uint64) {
	v := Violation{Harness: e.harness, Msg: msg, Kind: kind, Vector: e.vectorFromModel(model), Where: e.where()}
	if e.knownTags[msg] {
		if _, ok := e.knownHit[msg]; !ok {
			vv := v
			e.knownHit[msg] = &vv
		}
		return
	}
	e.violations = append(e.violations, v)
	panic(pathEnd{kind: "violation", msg: msg})
}

type goParked struct{}

// runQueued is the scheduling rule for goroutines started through vQueueGo: when the harness
// goroutine cannot proceed, every queued goroutine runs, one after the other, until it
// returns or parks at a blocking operation of its own (a parked goroutine is not resumed).
// Reports whether anything ran; the caller then re-evaluates its blocking operation.
func (e *Engine) runQueued() bool {
	if len(e.goQueue) == 0 || e.inGoroutine > 0 {
		return false
	}
	if e.noFork > 0 {
		panic(mergeAbort{"goroutine switch inside merge"})
	}
	q := e.goQueue
	e.goQueue = nil
	// the goroutines have their own (empty) list of held lock ranks; the parked harness
	// goroutine gets its list back afterwards (harness/vlib_sync.go)
	var ranks *Cell
	var saved Value
	if g, ok := e.pkg.Members["vHeldRanks"].(*ssa.Global); ok {
		ranks = e.globalCell(g)
		saved = e.load(ranks)
		e.store(ranks, e.zero(ranks.typ))
		defer func() { e.store(ranks, saved) }()
	}
	for _, fv := range q {
		func() {
			stack, depth := e.stack, e.depth
			e.inGoroutine++
			defer func() {
				e.inGoroutine--
				if r := recover(); r != nil {
					if _, ok := r.(goParked); !ok {
						panic(r)
					}
					e.stack, e.depth = stack, depth
				}
			}()
			e.invokeFuncV(fv, nil, token.NoPos)
		}()
	}
	return true
}

type guardInfo struct {
	lock *Cell // the sync.Mutex / sync.RWMutex cell that must be held
	name string
}

// checkGuard is the lockset discipline of vGuardedBy: code of the package under check (not
// harness code) may read a guarded field only with its lock held in some mode and write it
// only with the lock held exclusively. The native replay confirms a report with the race
// detector (a goroutine touching the field under the lock runs beside the harness).
func (e *Engine) checkGuard(fr *Frame, p Ptr, write bool) {
	if p.c == nil {
		return
	}
	gi, ok := e.guards[p.c]
	if !ok {
		return
	}
	isH, seen := e.harnessFn[fr.fn]
	if !seen {
		isH = strings.HasPrefix(filepath.Base(e.prog.Fset.Position(fr.fn.Pos()).Filename), "zz_verif_")
		if fr.fn.Parent() != nil && !isH {
			isH = strings.HasPrefix(filepath.Base(e.prog.Fset.Position(fr.fn.Parent().Pos()).Filename), "zz_verif_")
		}
		e.harnessFn[fr.fn] = isH
	}
	if isH {
		return
	}
	g := e.ghostOf(gi.lock)
	if g.locked > 0 || (!write && g.readers > 0) {
		return
	}
	if e.noFork > 0 {
		panic(mergeAbort{"guard report inside merge"})
	}
	how := "read without its lock held"
	if write {
		how = "written without its lock held"
		if g.readers > 0 {
			how = "written under a read lock (its lock held in shared mode only)"
		}
	}
	_, m := e.query(e.ts.True, e.modelTermsOr())
	e.reportViolation("unguarded", gi.name+" is "+how+" (data race with any concurrent API call)", m)
}

// unwindFail: a loop ran past the unwinding bound or the path past its step budget. Normally
// that is inconclusive (never success). Inside a must-not-block section, whose bound the
// harness has chosen to be sufficient for every terminating run, it is reported as "the
// call does not return"; the native replay must confirm it as a hang, otherwise the report
// is an internal error (so a bound that was merely too small cannot become a violation).
func (e *Engine) unwindFail(msg string) {
	if e.noBlockMsg != "" && e.inGoroutine == 0 && e.noFork == 0 {
		_, m := e.query(e.ts.True, e.modelTermsOr())
		e.reportViolation("blocked", e.noBlockMsg, m)
	}
	panic(pathEnd{kind: "unwind", msg: msg})
}

// block ends the path at an operation that can never proceed in the sequential execution.
// Inside a vMustNotBlock section this is a violation (the native replay confirms it as a hang).
func (e *Engine) block(msg string) {
	if e.inGoroutine > 0 {
		panic(goParked{})
	}
	if e.noBlockMsg != "" {
		if e.noFork > 0 {
			panic(mergeAbort{"block inside merge"})
		}
		_, m := e.query(e.ts.True, e.modelTermsOr())
		e.reportViolation("blocked", e.noBlockMsg, m)
	}
	panic(pathEnd{kind: "blocked", msg: msg})
}

// fireTimer lets the armed timer behind ch expire: the clock moves on by its duration.
func (e *Engine) fireTimer(ch *ChanObj) {
	g := ch.timer
	g.timerArmed = false
	if g.timerDur != nil && g.timerDur.IsConst() && int64(g.timerDur.val) > 0 {
		e.clockSkew += g.timerDur.val
	}
	ch.buf = append(ch.buf, e.timeV(e.now()))
}

// vc: bad is the condition under which the program panics here.
func (e *Engine) vc(bad *Term, msg string) {
	if bad.IsConst() && bad.val == 0 {
		return
	}
	if e.noFork > 0 {
		panic(mergeAbort{"vc inside merge"})
	}
	e.stats.VCs++
	if e.dpos < len(e.prefix) {
		// replaying a prefix: this VC was already discharged on the path that created the prefix
		if !bad.IsConst() {
			return
		}
	}
	e.stats.VCQ++
	r, m := e.query(bad, nil)
	if r == Sat {
		_, m = e.query(bad, e.modelTermsOr())
		e.reportViolation("panic", msg, m)
		// known finding: continue on the non-panicking side
		e.addPC(e.ts.Not(bad))
		if rr, _ := e.query(e.ts.True, nil); rr == Unsat {
			panic(pathEnd{kind: "infeasible"})
		}
		return
	}
	if r == Unknown {
		e.inconclusive = append(e.inconclusive, "unknown on VC: "+msg)
	}
	if bad.IsConst() {
		panic(pathEnd{kind: "infeasible"})
	}
}

func (e *Engine) modelTermsOr() []*Term {
	m := e.modelTerms()
	if len(m) == 0 {
		// need at least something to request; use a dummy
		return []*Term{e.ts.Var("n_dummy_b", BoolSort)}
	}
	return m
}

func (e *Engine) doAssert(c *Term, msg string) {
	e.stats.Asserts++
	if c.IsConst() && c.val == 1 {
		return
	}
	if e.dpos < len(e.prefix) && !c.IsConst() {
		e.addPCsoft(c)
		return
	}
	bad := e.ts.Not(c)
	if e.params["noshort"] == 0 && e.model != nil && e.model.Eval(bad) == 1 {
		// the current model already is a counterexample
		if e.debug {
			e.debugEval(bad)
		}
		m := map[*Term]uint64{}
		for _, n := range e.nondets {
			if n.Term != nil {
				m[n.Term] = e.model.Eval(n.Term)
			}
		}
		e.reportViolation("assert", msg, m)
		e.addPC(c)
		if rr, _ := e.query(e.ts.True, nil); rr == Unsat {
			panic(pathEnd{kind: "infeasible"})
		}
		return
	}
	e.stats.AssertQ++
	r, _ := e.query(bad, nil)
	switch r {
	case Sat:
		_, m := e.query(bad, e.modelTermsOr())
		e.reportViolation("assert", msg, m)
		// known finding: continue under the assumption that the assertion holds
		e.addPC(c)
		if rr, _ := e.query(e.ts.True, nil); rr == Unsat {
			panic(pathEnd{kind: "infeasible"})
		}
	case Unknown:
		e.inconclusive = append(e.inconclusive, "unknown on assertion: "+msg)
	default:
		e.addPCsoft(c)
	}
}

// addPCsoft records a fact that is implied by the pc; we do not add it (keeps queries small).
func (e *Engine) addPCsoft(c *Term) {}

func (e *Engine) doAssume(c *Term) {
	if c.IsConst() {
		if c.val == 0 {
			panic(pathEnd{kind: "infeasible"})
		}
		return
	}
	if e.noFork > 0 {
		panic(mergeAbort{"assume inside merge"})
	}
	e.addPC(c)
	if e.dpos < len(e.prefix) {
		return
	}
	r, _ := e.query(e.ts.True, nil)
	if r == Unsat {
		panic(pathEnd{kind: "infeasible"})
	}
}

// concretize forks over the feasible values of t (bounded by limit alternatives).
func (e *Engine) concretize(t *Term, limit int, what string) uint64 {
	if t.IsConst() {
		return t.val
	}
	if e.noFork > 0 {
		panic(mergeAbort{"concretize inside merge"})
	}
	// replay: decisions encode value index; we need the value list deterministically.
	// We enumerate values in increasing model order using blocking clauses; to stay
	// deterministic under replay we store the chosen value itself in the decision.
	if e.dpos < len(e.prefix) {
		d := e.prefix[e.dpos]
		e.dpos++
		e.trail = append(e.trail, d)
		v := uint64(d.choice)
		e.addPC(e.ts.Eq(t, e.ts.BVConst(t.sort.W, v)))
		return v
	}
	var vals []uint64
	saved := len(e.pc)
	for len(vals) <= limit {
		r, m := e.query(e.ts.True, []*Term{t})
		if r != Sat {
			if r == Unknown {
				e.inconclusive = append(e.inconclusive, "unknown while concretizing "+what)
			}
			break
		}
		v := m[t]
		vals = append(vals, v)
		e.pc = append(e.pc, e.ts.Not(e.ts.Eq(t, e.ts.BVConst(t.sort.W, v))))
	}
	e.pc = e.pc[:saved]
	if len(vals) == 0 {
		panic(pathEnd{kind: "infeasible"})
	}
	if len(vals) > limit {
		panic(pathEnd{kind: "unwind", msg: fmt.Sprintf("concretize %s: more than %d values", what, limit)})
	}
	sort.Slice(vals, func(i, j int) bool { return vals[i] < vals[j] })
	if e.debug && len(vals) > 8 {
		fmt.Fprintf(os.Stderr, "[%s] concretize %s: %d values at %s\n", e.harness, what, len(vals), e.where())
	}
	base := append([]decision{}, e.trail...)
	for k := len(vals) - 1; k >= 1; k-- {
		e.pool.push(append(append([]decision{}, base...), decision{int(vals[k]), true}), nil)
		e.stats.Forks++
	}
	d := decision{int(vals[0]), len(vals) > 1}
	e.trail = append(e.trail, d)
	e.addPC(e.ts.Eq(t, e.ts.BVConst(t.sort.W, vals[0])))
	return vals[0]
}

// ---------------------------------------------------------------- calls

func (e *Engine) callFunction(fn *ssa.Function, args []Value, pos token.Pos) Value {
	if h, ok := intrinsics[fn.String()]; ok {
		e.stubsUsed[fn.String()]++
		return h(e, fn, args)
	}
	if len(e.stubOn) > 0 {
		if st, ok := optionalStubs[fn.String()]; ok && e.stubOn[st.name] {
			e.stubsUsed[fn.String()+" (summarised)"]++
			return st.h(e, fn, args)
		}
	}
	if fn.Pkg != nil && fn.Pkg != e.pkg && fn.Name() == "init" {
		return nil
	}
	if len(fn.Blocks) == 0 {
		if h := lookupPrefixIntrinsic(fn); h != nil {
			e.stubsUsed[fn.String()]++
			return h(e, fn, args)
		}
		e.fail("unsupported external function %s", fn.String())
	}
	if h := lookupPrefixIntrinsic(fn); h != nil {
		e.stubsUsed[fn.String()]++
		return h(e, fn, args)
	}
	if e.depth > 200 {
		panic(pathEnd{kind: "unwind", msg: "call depth > 200 in " + fn.String()})
	}
	e.funcsSeen[fn] = true
	fr := &Frame{fn: fn, regs: make(map[ssa.Value]Value, 32), visits: map[*ssa.BasicBlock]int{}, caller: e.stack, callPos: pos}
	for i, p := range fn.Params {
		fr.regs[p] = args[i]
	}
	e.stack = fr
	e.depth++
	defer func() {
		e.stack = fr.caller
		e.depth--
	}()
	e.runFrame(fr)
	return fr.result
}

func (e *Engine) runFrame(fr *Frame) {
	b := fr.fn.Blocks[0]
	for b != nil {
		b = e.execBlock(fr, b)
	}
}

func (e *Engine) execBlock(fr *Frame, b *ssa.BasicBlock) *ssa.BasicBlock {
	// phis first (simultaneous)
	nphi := 0
	for _, ins := range b.Instrs {
		if _, ok := ins.(*ssa.Phi); ok {
			nphi++
		} else {
			break
		}
	}
	if nphi > 0 {
		idx := -1
		for i, p := range b.Preds {
			if p == fr.prev {
				idx = i
				break
			}
		}
		if idx < 0 {
			e.fail("phi: predecessor not found")
		}
		vals := make([]Value, nphi)
		for i := 0; i < nphi; i++ {
			vals[i] = e.get(fr, b.Instrs[i].(*ssa.Phi).Edges[idx])
		}
		for i := 0; i < nphi; i++ {
			fr.regs[b.Instrs[i].(*ssa.Phi)] = vals[i]
		}
	}
	return e.execFrom(fr, b, nphi)
}

func (e *Engine) execFrom(fr *Frame, b *ssa.BasicBlock, start int) *ssa.BasicBlock {
	for _, ins := range b.Instrs[start:] {
		e.steps++
		if e.workLimit > 0 && e.steps > e.workLimit {
			e.workLimit = 0
			if e.noFork > 0 {
				panic(mergeAbort{"work bound inside merge"})
			}
			_, m := e.query(e.ts.True, e.modelTermsOr())
			e.reportViolation("work", e.workMsg, m)
		}
		if e.noBlockMsg != "" && e.inGoroutine == 0 && e.steps-e.sectionStart > 300000 {
			// a must-not-block section is given a step budget of its own: the calls made in
			// one are short, and a loop that never ends should not cost the whole path budget
			e.sectionStart = e.steps
			e.unwindFail("more than 300000 instructions inside a must-not-block section")
		}
		if e.steps > e.maxSteps {
			e.unwindFail(fmt.Sprintf("step budget %d exceeded", e.maxSteps))
		}
		switch x := ins.(type) {
		case *ssa.Jump:
			fr.prev = b
			return b.Succs[0]
		case *ssa.If:
			c := e.get(fr, x.Cond).(*Term)
			if !c.IsConst() {
				if next, ok := e.tryMerge(fr, b, c); ok {
					return next
				}
			}
			fr.prev = b
			if e.branch(c, b) {
				return b.Succs[0]
			}
			return b.Succs[1]
		case *ssa.Return:
			switch len(x.Results) {
			case 0:
			case 1:
				fr.result = e.get(fr, x.Results[0])
			default:
				t := make(TupleV, len(x.Results))
				for i, r := range x.Results {
					t[i] = e.get(fr, r)
				}
				fr.result = t
			}
			return nil
		case *ssa.Panic:
			v := e.get(fr, x.X)
			e.vc(e.ts.True, "explicit panic: "+e.describePanic(v))
			panic(pathEnd{kind: "infeasible"})
		default:
			e.execInstr(fr, ins)
		}
	}
	e.fail("block without terminator")
	return nil
}

func (e *Engine) describePanic(v Value) string {
	if iv, ok := v.(IfaceV); ok {
		if s, ok := iv.v.(StringV); ok {
			return s.s
		}
		if iv.t != nil {
			return iv.t.String()
		}
	}
	return "?"
}

func (e *Engine) get(fr *Frame, v ssa.Value) Value {
	switch x := v.(type) {
	case *ssa.Const:
		return e.constValue(x)
	case *ssa.Global:
		return Ptr{c: e.globalCell(x)}
	case *ssa.Function:
		return FuncV{fn: x}
	case *ssa.Builtin:
		return FuncV{bi: x}
	}
	r, ok := fr.regs[v]
	if !ok {
		e.fail("unset register %s = %s in %s", v.Name(), v.String(), fr.fn.String())
	}
	return r
}

func (e *Engine) globalCell(g *ssa.Global) *Cell {
	c, ok := e.globals[g]
	if !ok {
		t := g.Type().(*types.Pointer).Elem()
		c = e.newCell(t)
		e.globals[g] = c
		if g.Pkg != e.pkg {
			e.initExternalGlobal(g, c)
		}
	}
	return c
}

func (e *Engine) constValue(c *ssa.Const) Value {
	t := c.Type()
	if c.Value == nil {
		return e.zero(t)
	}
	if s, ok := e.sortOf(t); ok {
		switch s.K {
		case SBool:
			return e.ts.Bool(constant.BoolVal(c.Value))
		case SBV:
			if isSigned(t) {
				return e.ts.BVConst(s.W, uint64(c.Int64()))
			}
			return e.ts.BVConst(s.W, c.Uint64())
		default:
			return e.ts.FPConst(c.Float64())
		}
	}
	if isString(t) {
		return StringV{s: constant.StringVal(c.Value)}
	}
	e.fail("const of type %v", t)
	return nil
}

// ---------------------------------------------------------------- instructions

func (e *Engine) execInstr(fr *Frame, ins ssa.Instruction) {
	switch x := ins.(type) {
	case *ssa.Alloc:
		fr.regs[x] = Ptr{c: e.newCell(x.Type().(*types.Pointer).Elem())}
	case *ssa.BinOp:
		fr.regs[x] = e.binop(x.Op, e.get(fr, x.X), e.get(fr, x.Y), x.X.Type(), x.Y.Type())
	case *ssa.UnOp:
		fr.regs[x] = e.unop(fr, x)
	case *ssa.Call:
		fr.regs[x] = e.doCall(fr, &x.Call, x.Pos())
	case *ssa.ChangeInterface:
		fr.regs[x] = e.get(fr, x.X)
	case *ssa.ChangeType:
		fr.regs[x] = e.get(fr, x.X)
	case *ssa.Convert:
		fr.regs[x] = e.convert(e.get(fr, x.X), x.X.Type(), x.Type())
	case *ssa.MakeInterface:
		fr.regs[x] = IfaceV{t: x.X.Type(), v: e.get(fr, x.X)}
	case *ssa.MakeClosure:
		binds := make([]Value, len(x.Bindings))
		for i, b := range x.Bindings {
			binds[i] = e.get(fr, b)
		}
		fr.regs[x] = FuncV{fn: x.Fn.(*ssa.Function), bind: binds}
	case *ssa.MakeMap:
		mt := x.Type().Underlying().(*types.Map)
		e.objSeq++
		fr.regs[x] = &MapObj{keyT: mt.Key(), elemT: mt.Elem(), id: e.objSeq}
	case *ssa.MakeChan:
		n := e.concreteInt(e.idx64(e.get(fr, x.Size), x.Size.Type()), "chan size")
		e.objSeq++
		fr.regs[x] = &ChanObj{cap: n, elemT: x.Type().Underlying().(*types.Chan).Elem(), id: e.objSeq}
	case *ssa.MakeSlice:
		st := x.Type().Underlying().(*types.Slice)
		ln := e.concreteLen(e.idx64(e.get(fr, x.Len), x.Len.Type()), "make len")
		cp := e.concreteLen(e.idx64(e.get(fr, x.Cap), x.Cap.Type()), "make cap")
		if cp < ln {
			e.vc(e.ts.True, "makeslice: cap out of range")
		}
		fr.regs[x] = SliceV{arr: e.newArrayCell(st.Elem(), cp), off: 0, len: ln, cap: cp}
	case *ssa.Extract:
		fr.regs[x] = e.get(fr, x.Tuple).(TupleV)[x.Index]
	case *ssa.Field:
		fr.regs[x] = e.get(fr, x.X).(StructV)[x.Field]
	case *ssa.FieldAddr:
		p := e.get(fr, x.X).(Ptr)
		if p.c == nil {
			if p.arr != nil {
				p = e.concretizePtr(p)
			} else {
				e.vc(e.ts.True, "nil pointer dereference (field address)")
				panic(pathEnd{kind: "infeasible"})
			}
		}
		fr.regs[x] = Ptr{c: p.c.kids[x.Field]}
	case *ssa.Index:
		fr.regs[x] = e.indexValue(fr, x)
	case *ssa.IndexAddr:
		fr.regs[x] = e.indexAddr(fr, x)
	case *ssa.Lookup:
		fr.regs[x] = e.lookup(fr, x)
	case *ssa.MapUpdate:
		m := e.get(fr, x.Map).(*MapObj)
		if m == nil {
			e.vc(e.ts.True, "assignment to entry in nil map")
			panic(pathEnd{kind: "infeasible"})
		}
		e.mapSet(m, e.get(fr, x.Key), e.get(fr, x.Value))
	case *ssa.Range:
		fr.regs[x] = e.makeRange(e.get(fr, x.X))
	case *ssa.Next:
		fr.regs[x] = e.rangeNext(e.get(fr, x.Iter).(*rangeIter), x)
	case *ssa.Slice:
		fr.regs[x] = e.sliceOp(fr, x)
	case *ssa.Store:
		if len(e.guards) > 0 {
			e.checkGuard(fr, e.get(fr, x.Addr).(Ptr), true)
		}
		e.storePtr(e.get(fr, x.Addr).(Ptr), e.get(fr, x.Val))
	case *ssa.TypeAssert:
		fr.regs[x] = e.typeAssert(fr, x)
	case *ssa.Defer:
		fv, args := e.prepareCall(fr, &x.Call)
		fr.defers = append(fr.defers, deferred{fv, args})
	case *ssa.RunDefers:
		for len(fr.defers) > 0 {
			d := fr.defers[len(fr.defers)-1]
			fr.defers = fr.defers[:len(fr.defers)-1]
			e.invokeFuncV(d.fv, d.args, x.Pos())
		}
	case *ssa.Go:
		fv, _ := e.prepareCall(fr, &x.Call)
		name := fv.name
		if fv.fn != nil {
			name = fv.fn.String()
		}
		e.goCalls = append(e.goCalls, name)
	case *ssa.Send:
		e.chanSend(e.get(fr, x.Chan).(*ChanObj), e.get(fr, x.X))
	case *ssa.Select:
		fr.regs[x] = e.selectOp(fr, x)
	case *ssa.DebugRef:
	case *ssa.SliceToArrayPointer:
		s := e.get(fr, x.X).(SliceV)
		n := int(x.Type().(*types.Pointer).Elem().Underlying().(*types.Array).Len())
		if s.len < n {
			e.vc(e.ts.True, "slice to array pointer: length too short")
		}
		if s.off == 0 && s.arr != nil && s.arr.n == n {
			fr.regs[x] = Ptr{c: s.arr}
		} else {
			e.fail("SliceToArrayPointer with offset")
		}
	default:
		e.fail("unsupported instruction %T: %s", ins, ins.String())
	}
}

func (e *Engine) concreteInt(v Value, what string) int {
	t := v.(*Term)
	if !t.IsConst() {
		return int(e.concretize(t, 64, what))
	}
	return int(sext64(t.val, t.sort.W))
}

func (e *Engine) concreteLen(v Value, what string) int {
	t := v.(*Term)
	if !t.IsConst() {
		// negative or huge lengths are panics
		e.vc(e.ts.BvCmp(OpBvSlt, t, e.ts.BVConst(t.sort.W, 0)), what+": negative length")
		return int(e.concretize(t, 4096, what))
	}
	n := sext64(t.val, t.sort.W)
	if n < 0 {
		e.vc(e.ts.True, what+": negative length")
		panic(pathEnd{kind: "infeasible"})
	}
	if n > 1<<24 {
		e.fail("%s: huge allocation %d", what, n)
	}
	return int(n)
}

func (e *Engine) concretizePtr(p Ptr) Ptr {
	if p.sym == nil {
		return p
	}
	i := int(e.concretize(p.sym, 4096, "symbolic element pointer"))
	return Ptr{c: e.kid(p.arr, p.base+i)}
}

func (e *Engine) loadPtr(p Ptr) Value {
	if p.c != nil {
		return e.load(p.c)
	}
	if p.arr == nil {
		e.vc(e.ts.True, "nil pointer dereference (load)")
		panic(pathEnd{kind: "infeasible"})
	}
	// symbolic index: ite chain if scalar elements
	if _, ok := e.sortOf(p.arr.elem); ok && p.n <= 1024 {
		var res *Term
		for i := p.n - 1; i >= 0; i-- {
			v := e.load(e.kid(p.arr, p.base+i)).(*Term)
			if res == nil {
				res = v
			} else {
				res = e.ts.Ite(e.ts.Eq(p.sym, e.ts.BVConst(64, uint64(i))), v, res)
			}
		}
		return res
	}
	return e.load(e.concretizePtr(p).c)
}

func (e *Engine) storePtr(p Ptr, v Value) {
	if p.c != nil {
		e.store(p.c, v)
		return
	}
	if p.arr == nil {
		e.vc(e.ts.True, "nil pointer dereference (store)")
		panic(pathEnd{kind: "infeasible"})
	}
	if e.noFork > 0 {
		panic(mergeAbort{"store in merge"})
	}
	if _, ok := e.sortOf(p.arr.elem); ok && p.n <= 1024 {
		nv := v.(*Term)
		for i := 0; i < p.n; i++ {
			k := e.kid(p.arr, p.base+i)
			old := k.v.(*Term)
			k.v = e.ts.Ite(e.ts.Eq(p.sym, e.ts.BVConst(64, uint64(i))), nv, old)
		}
		return
	}
	e.store(e.concretizePtr(p).c, v)
}

func (e *Engine) unop(fr *Frame, x *ssa.UnOp) Value {
	v := e.get(fr, x.X)
	switch x.Op {
	case token.MUL:
		if len(e.guards) > 0 {
			e.checkGuard(fr, v.(Ptr), false)
		}
		return e.loadPtr(v.(Ptr))
	case token.NOT:
		return e.ts.Not(v.(*Term))
	case token.SUB:
		t := v.(*Term)
		if t.sort.K == SFP {
			return e.ts.FpUn(OpFpNeg, t)
		}
		return e.ts.BvNeg(t)
	case token.XOR:
		return e.ts.BvNot(v.(*Term))
	case token.ARROW:
		val, ok := e.chanRecv(v.(*ChanObj))
		if x.CommaOk {
			return TupleV{val, e.ts.Bool(ok)}
		}
		return val
	}
	e.fail("unsupported unop %v", x.Op)
	return nil
}

func (e *Engine) indexBounds(idx *Term, n int, what string) {
	if idx.IsConst() {
		i := sext64(idx.val, idx.sort.W)
		if i < 0 || i >= int64(n) {
			e.vc(e.ts.True, fmt.Sprintf("%s: index %d out of range [0,%d)", what, i, n))
			panic(pathEnd{kind: "infeasible"})
		}
		return
	}
	e.vc(e.ts.Not(e.ts.BvCmp(OpBvUlt, idx, e.ts.BVConst(idx.sort.W, uint64(n)))), fmt.Sprintf("%s: index out of range [0,%d)", what, n))
}

func (e *Engine) idx64(v Value, t types.Type) *Term {
	tt := v.(*Term)
	if tt.sort.W == 64 {
		return tt
	}
	if isSigned(t) {
		return e.ts.Sext(tt, 64)
	}
	return e.ts.Zext(tt, 64)
}

func (e *Engine) indexAddr(fr *Frame, x *ssa.IndexAddr) Value {
	base := e.get(fr, x.X)
	idx := e.idx64(e.get(fr, x.Index), x.Index.Type())
	var arr *Cell
	off, n := 0, 0
	switch b := base.(type) {
	case SliceV:
		arr, off, n = b.arr, b.off, b.len
		if arr == nil {
			n = 0
		}
	case Ptr:
		if b.c == nil {
			if b.arr != nil {
				b = e.concretizePtr(b)
			} else {
				e.vc(e.ts.True, "nil pointer dereference (index)")
				panic(pathEnd{kind: "infeasible"})
			}
		}
		arr, off, n = b.c, 0, b.c.n
	default:
		e.fail("indexAddr on %T", base)
	}
	e.indexBounds(idx, n, "index")
	if idx.IsConst() {
		return Ptr{c: e.kid(arr, off+int(idx.val))}
	}
	return Ptr{arr: arr, base: off, sym: idx, n: n}
}

func (e *Engine) indexValue(fr *Frame, x *ssa.Index) Value {
	base := e.get(fr, x.X)
	idx := e.idx64(e.get(fr, x.Index), x.Index.Type())
	switch b := base.(type) {
	case ArrayV:
		e.indexBounds(idx, len(b), "array index")
		if idx.IsConst() {
			return b[idx.val]
		}
		i := e.concretize(idx, 4096, "array value index")
		return b[i]
	case StringV:
		e.indexBounds(idx, len(b.s), "string index")
		i := e.concretize(idx, 4096, "string index")
		return e.ts.BVConst(8, uint64(b.s[i]))
	}
	e.fail("Index on %T", base)
	return nil
}

func (e *Engine) sliceOp(fr *Frame, x *ssa.Slice) Value {
	base := e.get(fr, x.X)
	var arr *Cell
	off, ln, cp := 0, 0, 0
	isStr := false
	var str StringV
	switch b := base.(type) {
	case SliceV:
		arr, off, ln, cp = b.arr, b.off, b.len, b.cap
	case Ptr:
		if b.c == nil {
			e.vc(e.ts.True, "nil pointer dereference (slice of array)")
			panic(pathEnd{kind: "infeasible"})
		}
		arr, off, ln, cp = b.c, 0, b.c.n, b.c.n
	case StringV:
		isStr = true
		str = b
		ln = len(b.s)
		cp = ln
	default:
		e.fail("slice of %T", base)
	}
	lo, hi, mx := 0, ln, cp
	// evaluate bounds: check ordering 0 <= lo <= hi <= max <= cap
	getB := func(v ssa.Value, def int) (*Term, bool) {
		if v == nil {
			return e.ts.BVConst(64, uint64(def)), false
		}
		return e.idx64(e.get(fr, v), v.Type()), true
	}
	tlo, _ := getB(x.Low, 0)
	thi, hasHi := getB(x.High, ln)
	tmx, hasMx := getB(x.Max, cp)
	limit := cp
	if isStr {
		limit = ln
	}
	_ = hasHi
	c := func(n int) *Term { return e.ts.BVConst(64, uint64(n)) }
	ule := func(a, b *Term) *Term { return e.ts.BvCmp(OpBvUle, a, b) }
	okc := e.ts.And(ule(tlo, thi), ule(thi, tmx))
	okc = e.ts.And(okc, ule(tmx, c(limit)))
	if !hasMx {
		okc = e.ts.And(ule(tlo, thi), ule(thi, c(limit)))
	}
	e.vc(e.ts.Not(okc), fmt.Sprintf("slice bounds out of range (cap %d)", limit))
	lo = int(e.concretize(tlo, 4096, "slice low"))
	hi = int(e.concretize(thi, 4096, "slice high"))
	if hasMx {
		mx = int(e.concretize(tmx, 4096, "slice max"))
	}
	if isStr {
		return StringV{s: str.s[lo:hi], opaque: str.opaque}
	}
	if arr == nil {
		return SliceV{}
	}
	return SliceV{arr: arr, off: off + lo, len: hi - lo, cap: mx - lo}
}

// ---------------------------------------------------------------- maps

func (e *Engine) valueEq(a, b Value) *Term {
	switch x := a.(type) {
	case *Term:
		return e.ts.Eq(x, b.(*Term))
	case StringV:
		y := b.(StringV)
		if x.opaque || y.opaque {
			return e.ts.Bool(x.s == y.s && x.opaque == y.opaque)
		}
		return e.ts.Bool(x.s == y.s)
	case Ptr:
		y := b.(Ptr)
		if x.sym != nil || y.sym != nil {
			x, y = e.concretizePtr(x), e.concretizePtr(y)
		}
		return e.ts.Bool(x.c == y.c)
	case IfaceV:
		y, ok := b.(IfaceV)
		if !ok {
			e.fail("valueEq iface vs %T", b)
		}
		if x.t == nil || y.t == nil {
			return e.ts.Bool(x.t == nil && y.t == nil)
		}
		if !types.Identical(x.t, y.t) {
			return e.ts.False
		}
		return e.valueEq(x.v, y.v)
	case *MapObj:
		y, _ := b.(*MapObj)
		return e.ts.Bool(x == y)
	case *ChanObj:
		y, _ := b.(*ChanObj)
		return e.ts.Bool(x == y)
	case FuncV:
		y := b.(FuncV)
		return e.ts.Bool(x.fn == y.fn && x.bi == y.bi && x.native == nil && y.native == nil && len(x.bind) == 0 && len(y.bind) == 0)
	case SliceV:
		y := b.(SliceV)
		if x.arr == nil || y.arr == nil {
			return e.ts.Bool(x.arr == nil && y.arr == nil)
		}
		e.fail("slice comparison")
	case StructV:
		y := b.(StructV)
		r := e.ts.True
		for i := range x {
			r = e.ts.And(r, e.valueEq(x[i], y[i]))
		}
		return r
	case ArrayV:
		y := b.(ArrayV)
		r := e.ts.True
		for i := range x {
			r = e.ts.And(r, e.valueEq(x[i], y[i]))
		}
		return r
	case nil:
		return e.ts.Bool(b == nil)
	}
	e.fail("valueEq on %T", a)
	return nil
}

// mapFind returns the index of key in m (forking on symbolic equality) or -1.
func (e *Engine) mapFind(m *MapObj, key Value) int {
	if m == nil {
		return -1
	}
	for i, k := range m.keys {
		eq := e.valueEq(k, key)
		if e.branch(eq, nil) {
			return i
		}
	}
	return -1
}

func (e *Engine) mapSet(m *MapObj, key, val Value) {
	if i := e.mapFind(m, key); i >= 0 {
		m.vals[i] = val
		return
	}
	m.keys = append(m.keys, key)
	m.vals = append(m.vals, val)
}

func (e *Engine) mapDelete(m *MapObj, key Value) {
	if i := e.mapFind(m, key); i >= 0 {
		m.keys = append(append([]Value{}, m.keys[:i]...), m.keys[i+1:]...)
		m.vals = append(append([]Value{}, m.vals[:i]...), m.vals[i+1:]...)
	}
}

func (e *Engine) lookup(fr *Frame, x *ssa.Lookup) Value {
	base := e.get(fr, x.X)
	if s, ok := base.(StringV); ok {
		idx := e.idx64(e.get(fr, x.Index), x.Index.Type())
		e.indexBounds(idx, len(s.s), "string index")
		i := e.concretize(idx, 4096, "string index")
		return e.ts.BVConst(8, uint64(s.s[i]))
	}
	m := base.(*MapObj)
	key := e.get(fr, x.Index)
	i := e.mapFind(m, key)
	var v Value
	if i >= 0 {
		v = m.vals[i]
	} else {
		v = e.zero(x.X.Type().Underlying().(*types.Map).Elem())
	}
	if x.CommaOk {
		return TupleV{v, e.ts.Bool(i >= 0)}
	}
	return v
}

type rangeIter struct {
	m    *MapObj
	keys []Value
	pos  int
	str  *StringV
}

func (e *Engine) makeRange(v Value) Value {
	switch x := v.(type) {
	case *MapObj:
		it := &rangeIter{m: x}
		if x != nil {
			it.keys = append([]Value{}, x.keys...)
			if e.params["maprev"] == 1 {
				for i, j := 0, len(it.keys)-1; i < j; i, j = i+1, j-1 {
					it.keys[i], it.keys[j] = it.keys[j], it.keys[i]
				}
			}
		}
		return it
	case StringV:
		return &rangeIter{str: &x}
	}
	e.fail("range over %T", v)
	return nil
}

func (e *Engine) rangeNext(it *rangeIter, x *ssa.Next) Value {
	if x.IsString {
		if it.pos >= len(it.str.s) {
			return TupleV{e.ts.False, e.ts.BVConst(64, 0), e.ts.BVConst(32, 0)}
		}
		// bytes only (ASCII); adequate for the few uses
		i := it.pos
		it.pos++
		return TupleV{e.ts.True, e.ts.BVConst(64, uint64(i)), e.ts.BVConst(32, uint64(it.str.s[i]))}
	}
	mt := it.mType(x)
	for it.pos < len(it.keys) {
		k := it.keys[it.pos]
		it.pos++
		// still present?
		for i, kk := range it.m.keys {
			if e.valueEqConcrete(kk, k) {
				return TupleV{e.ts.True, k, it.m.vals[i]}
			}
		}
	}
	_ = mt
	var zk, zv Value
	if it.m != nil {
		zk, zv = e.zero(it.m.keyT), e.zero(it.m.elemT)
	} else {
		tt := x.Type().(*types.Tuple)
		zk, zv = e.zeroOrNil(tt.At(1).Type()), e.zeroOrNil(tt.At(2).Type())
	}
	return TupleV{e.ts.False, zk, zv}
}

func (e *Engine) zeroOrNil(t types.Type) Value {
	if b, ok := t.(*types.Basic); ok && b.Kind() == types.Invalid {
		return nil
	}
	return e.zero(t)
}

func (it *rangeIter) mType(x *ssa.Next) types.Type { return nil }

// ---------------------------------------------------------------- type assertions

func (e *Engine) implements(t types.Type, it *types.Interface) bool {
	return types.Implements(t, it)
}

func (e *Engine) typeAssert(fr *Frame, x *ssa.TypeAssert) Value {
	v := e.get(fr, x.X).(IfaceV)
	ok := false
	var res Value
	if it, isI := x.AssertedType.Underlying().(*types.Interface); isI {
		ok = v.t != nil && e.implements(v.t, it)
		if ok {
			res = v
		} else {
			res = IfaceV{}
		}
	} else {
		ok = v.t != nil && types.Identical(v.t, x.AssertedType)
		if ok {
			res = v.v
		} else {
			res = e.zero(x.AssertedType)
		}
	}
	if x.CommaOk {
		return TupleV{res, e.ts.Bool(ok)}
	}
	if !ok {
		e.vc(e.ts.True, fmt.Sprintf("interface conversion: %v is not %v", v.t, x.AssertedType))
		panic(pathEnd{kind: "infeasible"})
	}
	return res
}

// ---------------------------------------------------------------- calls

func (e *Engine) prepareCall(fr *Frame, c *ssa.CallCommon) (FuncV, []Value) {
	var args []Value
	var fv FuncV
	if c.IsInvoke() {
		recv := e.get(fr, c.Value).(IfaceV)
		if recv.t == nil {
			e.vc(e.ts.True, "nil interface method call "+c.Method.Name())
			panic(pathEnd{kind: "infeasible"})
		}
		fn := e.prog.LookupMethod(recv.t, c.Method.Pkg(), c.Method.Name())
		if fn == nil {
			e.fail("method %s not found on %v", c.Method.Name(), recv.t)
		}
		fv = FuncV{fn: fn}
		args = append(args, recv.v)
	} else {
		switch v := e.get(fr, c.Value).(type) {
		case FuncV:
			fv = v
		default:
			e.fail("call of %T", v)
		}
	}
	for _, a := range c.Args {
		args = append(args, e.get(fr, a))
	}
	return fv, args
}

func (e *Engine) doCall(fr *Frame, c *ssa.CallCommon, pos token.Pos) Value {
	fv, args := e.prepareCall(fr, c)
	if fv.bi != nil {
		return e.builtin(fr, fv.bi, c, args)
	}
	return e.invokeFuncV(fv, args, pos)
}

func (e *Engine) invokeFuncV(fv FuncV, args []Value, pos token.Pos) Value {
	if fv.native != nil {
		return fv.native(e, args)
	}
	if fv.bi != nil {
		return e.builtinDeferred(fv.bi, args)
	}
	if fv.fn == nil {
		e.vc(e.ts.True, "call of nil function")
		panic(pathEnd{kind: "infeasible"})
	}
	if len(fv.bind) > 0 || len(fv.fn.FreeVars) > 0 {
		return e.callClosure(fv, args, pos)
	}
	return e.callFunction(fv.fn, args, pos)
}

func (e *Engine) callClosure(fv FuncV, args []Value, pos token.Pos) Value {
	fn := fv.fn
	if e.depth > 200 {
		panic(pathEnd{kind: "unwind", msg: "call depth"})
	}
	e.funcsSeen[fn] = true
	fr := &Frame{fn: fn, regs: make(map[ssa.Value]Value, 32), visits: map[*ssa.BasicBlock]int{}, caller: e.stack, callPos: pos}
	for i, p := range fn.Params {
		fr.regs[p] = args[i]
	}
	for i, fvv := range fn.FreeVars {
		fr.regs[fvv] = fv.bind[i]
	}
	e.stack = fr
	e.depth++
	defer func() {
		e.stack = fr.caller
		e.depth--
	}()
	e.runFrame(fr)
	return fr.result
}

// debugEval cross-checks the concrete evaluator against the solver under the current model.
func (e *Engine) debugEval(root *Term) {
	var fix []*Term
	for _, v := range e.pathVars {
		val := e.model.Eval(v)
		if v.sort.K == SBool {
			fix = append(fix, e.ts.Eq(v, e.ts.Bool(val == 1)))
		} else {
			fix = append(fix, e.ts.Eq(v, e.ts.BVConst(v.sort.W, val)))
		}
	}
	seen := map[*Term]bool{}
	var walk func(t *Term) bool
	walk = func(t *Term) bool {
		if seen[t] || t.op == OpConst || t.sort.K == SFP {
			return false
		}
		seen[t] = true
		r, m := e.solver.Check(fix, []*Term{t})
		if r != Sat {
			fmt.Fprintf(os.Stderr, "debugEval: fixing vars gives %v\n", r)
			return true
		}
		if m[t] == e.model.Eval(t) {
			return false
		}
		for _, a := range t.args {
			if walk(a) {
				return true
			}
		}
		fmt.Fprintf(os.Stderr, "debugEval MISMATCH at %s: solver=%x eval=%x\n", t.render(2), m[t], e.model.Eval(t))
		for _, a := range t.args {
			fmt.Fprintf(os.Stderr, "   arg %s = %x (sort %v)\n", a.render(1), e.model.Eval(a), a.sort)
		}
		return true
	}
	if !walk(root) {
		for _, p := range e.pc {
			if walk(p) {
				return
			}
		}
		fmt.Fprintf(os.Stderr, "debugEval: evaluator agrees with solver on root and pc\n  root=%s\n", root.render(4))
		var dump func(t *Term, d int)
		dump = func(t *Term, d int) {
			fmt.Fprintf(os.Stderr, "  %*s%s = %x\n", 2*(3-d), "", t.render(1), e.model.Eval(t))
			if d > 0 {
				for _, a := range t.args {
					dump(a, d-1)
				}
			}
		}
		dump(root, 3)
		for _, v := range e.pathVars {
			fmt.Fprintf(os.Stderr, "  var %s = %x\n", v.name, e.model.Eval(v))
		}
		fmt.Fprintf(os.Stderr, "  trail=%v prefixlen=%d\n", e.trail, len(e.prefix))
	}
}
