package main

// Concrete evaluation of terms under a variable assignment (used to reuse the
// last solver model for branch feasibility) and cheap unsigned upper bounds (used
// to discharge index-bound VCs syntactically).

import "math"

type Model struct {
	vals map[string]uint64
	memo map[*Term]uint64
}

func NewModel(vals map[string]uint64) *Model {
	if vals == nil {
		vals = map[string]uint64{}
	}
	return &Model{vals: vals, memo: map[*Term]uint64{}}
}

func (m *Model) Eval(t *Term) uint64 {
	if t.op == OpConst {
		return t.val
	}
	if v, ok := m.memo[t]; ok {
		return v
	}
	var v uint64
	if t.op == OpVar {
		v = m.vals[t.name] // unconstrained variables default to 0
		if t.sort.K == SBool {
			v &= 1
		} else {
			v &= mask(t.sort.W)
		}
		m.memo[t] = v
		return v
	}
	a := make([]uint64, len(t.args))
	for i, x := range t.args {
		a[i] = m.Eval(x)
	}
	b2u := func(b bool) uint64 {
		if b {
			return 1
		}
		return 0
	}
	fl := math.Float64frombits
	switch t.op {
	case OpNot:
		v = 1 - a[0]
	case OpAnd:
		v = a[0] & a[1]
	case OpOr:
		v = a[0] | a[1]
	case OpEq:
		v = b2u(a[0] == a[1])
	case OpIte:
		if a[0] == 1 {
			v = a[1]
		} else {
			v = a[2]
		}
	case OpBvAdd, OpBvSub, OpBvMul, OpBvUDiv, OpBvURem, OpBvSDiv, OpBvSRem, OpBvAnd, OpBvOr, OpBvXor, OpBvShl, OpBvLshr, OpBvAshr:
		w := t.sort.W
		r, ok := foldBV(t.op, w, a[0], a[1])
		if !ok {
			// signed division by zero: SMT-LIB semantics
			sx := sext64(a[0], w)
			if t.op == OpBvSDiv {
				if sx >= 0 {
					r = mask(w)
				} else {
					r = 1
				}
			} else {
				r = a[0]
			}
		}
		v = r
	case OpBvNot:
		v = ^a[0] & mask(t.sort.W)
	case OpBvNeg:
		v = (-a[0]) & mask(t.sort.W)
	case OpBvUlt:
		v = b2u(a[0] < a[1])
	case OpBvUle:
		v = b2u(a[0] <= a[1])
	case OpBvSlt:
		w := t.args[0].sort.W
		v = b2u(sext64(a[0], w) < sext64(a[1], w))
	case OpBvSle:
		w := t.args[0].sort.W
		v = b2u(sext64(a[0], w) <= sext64(a[1], w))
	case OpExtract:
		v = (a[0] >> uint(t.a1)) & mask(t.a0-t.a1+1)
	case OpZext:
		v = a[0]
	case OpSext:
		v = uint64(sext64(a[0], t.args[0].sort.W)) & mask(t.sort.W)
	case OpConcat:
		v = a[0]<<uint(t.args[1].sort.W) | a[1]
	case OpFpAdd:
		v = math.Float64bits(fl(a[0]) + fl(a[1]))
	case OpFpSub:
		v = math.Float64bits(fl(a[0]) - fl(a[1]))
	case OpFpMul:
		v = math.Float64bits(fl(a[0]) * fl(a[1]))
	case OpFpDiv:
		v = math.Float64bits(fl(a[0]) / fl(a[1]))
	case OpFpNeg:
		v = a[0] ^ (1 << 63)
	case OpFpAbs:
		v = a[0] &^ (1 << 63)
	case OpFpMin:
		v = math.Float64bits(math.Min(fl(a[0]), fl(a[1])))
	case OpFpMax:
		v = math.Float64bits(math.Max(fl(a[0]), fl(a[1])))
	case OpFpLt:
		v = b2u(fl(a[0]) < fl(a[1]))
	case OpFpLe:
		v = b2u(fl(a[0]) <= fl(a[1]))
	case OpFpEq:
		v = b2u(fl(a[0]) == fl(a[1]))
	case OpFpIsNaN:
		v = b2u(math.IsNaN(fl(a[0])))
	case OpFpIsInf:
		v = b2u(math.IsInf(fl(a[0]), 0))
	case OpFpFromSBV:
		v = math.Float64bits(float64(sext64(a[0], t.args[0].sort.W)))
	case OpFpFromUBV:
		v = math.Float64bits(float64(a[0]))
	case OpFpToSBV:
		f := fl(a[0])
		if math.IsNaN(f) || math.IsInf(f, 0) || math.Abs(f) >= 9.2e18 {
			v = 0
		} else {
			v = uint64(int64(f)) & mask(t.sort.W)
		}
	case OpFpToUBV:
		f := fl(a[0])
		if math.IsNaN(f) || math.IsInf(f, 0) || f < 0 || f >= 1.8e19 {
			v = 0
		} else {
			v = uint64(f) & mask(t.sort.W)
		}
	case OpFpFromBits:
		v = a[0]
	default:
		panic("eval: unsupported op")
	}
	m.memo[t] = v
	return v
}

// ub returns an unsigned upper bound of a BV term (cheap, syntactic).
func ub(t *Term, depth int) uint64 {
	full := mask(t.sort.W)
	if t.op == OpConst {
		return t.val
	}
	if depth == 0 {
		return full
	}
	switch t.op {
	case OpBvURem:
		if c := t.args[1]; c.IsConst() && c.val > 0 {
			return c.val - 1
		}
	case OpBvAnd:
		a, b := ub(t.args[0], depth-1), ub(t.args[1], depth-1)
		if a < b {
			return a
		}
		return b
	case OpBvLshr:
		if c := t.args[1]; c.IsConst() && c.val < 64 {
			return ub(t.args[0], depth-1) >> c.val
		}
	case OpBvUDiv:
		if c := t.args[1]; c.IsConst() && c.val > 0 {
			return ub(t.args[0], depth-1) / c.val
		}
	case OpZext:
		return ub(t.args[0], depth-1)
	case OpExtract:
		if t.a1 == 0 {
			u := ub(t.args[0], depth-1)
			if u <= full {
				return u
			}
		}
	case OpIte:
		a, b := ub(t.args[1], depth-1), ub(t.args[2], depth-1)
		if a > b {
			return a
		}
		return b
	case OpBvAdd:
		a, b := ub(t.args[0], depth-1), ub(t.args[1], depth-1)
		if s := a + b; s >= a && s <= full {
			return s
		}
	}
	return full
}
