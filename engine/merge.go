package main

// If-conversion of side-effect-free diamonds (&&, ||, small pure helpers such as
// sna32LT): instead of forking, both sides are evaluated and joined with ite.

import (
	"go/token"

	"golang.org/x/tools/go/ssa"
)

type mergeRegion struct {
	join   *ssa.BasicBlock
	blocks []*ssa.BasicBlock // topological order
}

var pureIntrinsics = map[string]bool{
	"math.Min": true, "math.Max": true, "math.Abs": true, "math.IsNaN": true, "math.IsInf": true,
	"math/bits.TrailingZeros64": true, "math/bits.OnesCount64": true,
	"(time.Time).IsZero": true, "(time.Time).Sub": true, "(time.Time).Add": true, "(time.Time).Before": true,
	"(time.Time).After": true, "(time.Time).Equal": true, "bytes.Equal": true, "errors.Is": true,
}

func (e *Engine) postDoms(fn *ssa.Function) map[*ssa.BasicBlock]*ssa.BasicBlock {
	if m, ok := e.pdomCache[fn]; ok {
		return m
	}
	n := len(fn.Blocks)
	// pdom sets as bitsets over n+1 nodes (n = virtual exit)
	words := (n + 1 + 63) / 64
	full := make([]uint64, words)
	for i := 0; i <= n; i++ {
		full[i/64] |= 1 << uint(i%64)
	}
	sets := make([][]uint64, n+1)
	for i := 0; i <= n; i++ {
		sets[i] = append([]uint64{}, full...)
	}
	exit := make([]uint64, words)
	exit[n/64] |= 1 << uint(n%64)
	sets[n] = exit
	changed := true
	for changed {
		changed = false
		for i := n - 1; i >= 0; i-- {
			b := fn.Blocks[i]
			nw := append([]uint64{}, full...)
			if len(b.Succs) == 0 {
				copy(nw, sets[n])
			} else {
				for _, s := range b.Succs {
					for w := range nw {
						nw[w] &= sets[s.Index][w]
					}
				}
			}
			nw[i/64] |= 1 << uint(i%64)
			for w := range nw {
				if nw[w] != sets[i][w] {
					changed = true
				}
			}
			sets[i] = nw
		}
	}
	count := func(s []uint64) int {
		c := 0
		for _, w := range s {
			for ; w != 0; w &= w - 1 {
				c++
			}
		}
		return c
	}
	res := map[*ssa.BasicBlock]*ssa.BasicBlock{}
	for i := 0; i < n; i++ {
		// ipdom = the strict post-dominator with the largest pdom set
		best, bestC := -1, -1
		for j := 0; j < n; j++ {
			if j != i && sets[i][j/64]&(1<<uint(j%64)) != 0 {
				if c := count(sets[j]); c > bestC {
					best, bestC = j, c
				}
			}
		}
		if best >= 0 {
			res[fn.Blocks[i]] = fn.Blocks[best]
		}
	}
	e.pdomCache[fn] = res
	return res
}

func (e *Engine) instrPure(ins ssa.Instruction) bool {
	switch x := ins.(type) {
	case *ssa.Phi, *ssa.BinOp, *ssa.Convert, *ssa.ChangeType, *ssa.ChangeInterface, *ssa.Field, *ssa.FieldAddr,
		*ssa.IndexAddr, *ssa.Index, *ssa.Extract, *ssa.MakeInterface, *ssa.If, *ssa.Jump, *ssa.DebugRef, *ssa.Lookup, *ssa.Slice:
		return true
	case *ssa.TypeAssert:
		return x.CommaOk
	case *ssa.UnOp:
		return x.Op != token.ARROW
	case *ssa.Call:
		if x.Call.IsInvoke() {
			return false
		}
		switch c := x.Call.Value.(type) {
		case *ssa.Builtin:
			switch c.Name() {
			case "len", "cap", "min", "max":
				return true
			}
			return false
		case *ssa.Function:
			return e.funcPure(c)
		}
		return false
	}
	return false
}

func (e *Engine) funcPure(fn *ssa.Function) bool {
	if v, ok := e.pureFn[fn]; ok {
		return v == 1
	}
	name := fn.String()
	if _, ok := intrinsics[name]; ok {
		if pureIntrinsics[name] {
			e.pureFn[fn] = 1
			return true
		}
		e.pureFn[fn] = 2
		return false
	}
	if lookupPrefixIntrinsic(fn) != nil || len(fn.Blocks) == 0 {
		e.pureFn[fn] = 2
		return false
	}
	e.pureFn[fn] = 2 // recursion guard
	nInstr := 0
	for _, b := range fn.Blocks {
		for _, ins := range b.Instrs {
			nInstr++
			if _, ok := ins.(*ssa.Return); ok {
				continue
			}
			if !e.instrPure(ins) {
				return false
			}
		}
	}
	if nInstr > 400 {
		return false
	}
	e.pureFn[fn] = 1
	return true
}

func (e *Engine) region(b *ssa.BasicBlock) *mergeRegion {
	if r, ok := e.mergeInfo[b]; ok {
		return r
	}
	e.mergeInfo[b] = nil
	fn := b.Parent()
	j := e.postDoms(fn)[b]
	if j == nil {
		return nil
	}
	// collect region
	in := map[*ssa.BasicBlock]bool{}
	var order []*ssa.BasicBlock
	state := map[*ssa.BasicBlock]int{}
	ok := true
	var dfs func(x *ssa.BasicBlock)
	dfs = func(x *ssa.BasicBlock) {
		if !ok || x == j {
			return
		}
		if x == b {
			ok = false // loop back to header
			return
		}
		switch state[x] {
		case 1:
			ok = false // cycle
			return
		case 2:
			return
		}
		state[x] = 1
		in[x] = true
		if len(in) > 24 {
			ok = false
			return
		}
		for _, s := range x.Succs {
			dfs(s)
		}
		state[x] = 2
		order = append(order, x)
	}
	for _, s := range b.Succs {
		dfs(s)
	}
	if !ok {
		return nil
	}
	// reverse postorder = topological
	for i, k := 0, len(order)-1; i < k; i, k = i+1, k-1 {
		order[i], order[k] = order[k], order[i]
	}
	for _, r := range order {
		for _, p := range r.Preds {
			if p != b && !in[p] {
				return nil
			}
		}
		if len(r.Succs) == 0 {
			return nil
		}
		for _, ins := range r.Instrs {
			if !e.instrPure(ins) {
				return nil
			}
		}
	}
	mr := &mergeRegion{join: j, blocks: order}
	e.mergeInfo[b] = mr
	return mr
}

type edgeKey struct{ from, to *ssa.BasicBlock }

func (e *Engine) tryMerge(fr *Frame, b *ssa.BasicBlock, c *Term) (next *ssa.BasicBlock, merged bool) {
	if e.params["nomerge"] == 1 {
		return nil, false
	}
	mr := e.region(b)
	if mr == nil {
		return nil, false
	}
	e.noFork++
	savedStack, savedDepth := e.stack, e.depth
	aborted := false
	nJoinPhi := 0
	func() {
		defer func() {
			if r := recover(); r != nil {
				if _, ok := r.(mergeAbort); ok {
					aborted = true
					return
				}
				panic(r)
			}
		}()
		edges := map[edgeKey]*Term{}
		addEdge := func(from, to *ssa.BasicBlock, g *Term) {
			k := edgeKey{from, to}
			if old, ok := edges[k]; ok {
				edges[k] = e.ts.Or(old, g)
			} else {
				edges[k] = g
			}
		}
		addEdge(b, b.Succs[0], c)
		addEdge(b, b.Succs[1], e.ts.Not(c))
		phis := func(r *ssa.BasicBlock) int {
			n := 0
			var vals []Value
			for _, ins := range r.Instrs {
				phi, ok := ins.(*ssa.Phi)
				if !ok {
					break
				}
				n++
				var acc Value
				for i, p := range r.Preds {
					g, ok := edges[edgeKey{p, r}]
					if !ok {
						continue
					}
					v := e.get(fr, phi.Edges[i])
					if acc == nil {
						acc = v
						continue
					}
					acc = e.iteValue(g, v, acc)
				}
				if acc == nil {
					panic(mergeAbort{"phi without incoming edge"})
				}
				vals = append(vals, acc)
			}
			for i := 0; i < n; i++ {
				fr.regs[r.Instrs[i].(*ssa.Phi)] = vals[i]
			}
			return n
		}
		for _, r := range mr.blocks {
			g := e.ts.False
			for _, p := range r.Preds {
				if eg, ok := edges[edgeKey{p, r}]; ok {
					g = e.ts.Or(g, eg)
				}
			}
			n := phis(r)
			for _, ins := range r.Instrs[n:] {
				e.steps++
				switch x := ins.(type) {
				case *ssa.Jump:
					addEdge(r, r.Succs[0], g)
				case *ssa.If:
					t := e.get(fr, x.Cond).(*Term)
					addEdge(r, r.Succs[0], e.ts.And(g, t))
					addEdge(r, r.Succs[1], e.ts.And(g, e.ts.Not(t)))
				default:
					e.execInstr(fr, ins)
				}
			}
		}
		nJoinPhi = phis(mr.join)
	}()
	e.noFork--
	if aborted {
		e.stack, e.depth = savedStack, savedDepth
		e.stats.MergeAborts++
		return nil, false
	}
	e.stats.Merges++
	fr.prev = nil
	return e.execFrom(fr, mr.join, nJoinPhi), true
}

func (e *Engine) iteValue(g *Term, a, b Value) Value {
	switch x := a.(type) {
	case *Term:
		return e.ts.Ite(g, x, b.(*Term))
	case TupleV:
		y := b.(TupleV)
		out := make(TupleV, len(x))
		for i := range x {
			out[i] = e.iteValue(g, x[i], y[i])
		}
		return out
	case StructV:
		y := b.(StructV)
		out := make(StructV, len(x))
		for i := range x {
			out[i] = e.iteValue(g, x[i], y[i])
		}
		return out
	}
	eq := e.valueEqConcrete(a, b)
	if eq {
		return a
	}
	panic(mergeAbort{"non-scalar phi"})
}

func (e *Engine) valueEqConcrete(a, b Value) bool {
	switch x := a.(type) {
	case Ptr:
		y, ok := b.(Ptr)
		return ok && x.c == y.c && x.sym == nil && y.sym == nil && x.arr == y.arr
	case StringV:
		y, ok := b.(StringV)
		return ok && x == y
	case IfaceV:
		y, ok := b.(IfaceV)
		if !ok {
			return false
		}
		if x.t == nil || y.t == nil {
			return x.t == nil && y.t == nil
		}
		return x.t == y.t && e.valueEqConcrete(x.v, y.v)
	case *MapObj:
		y, ok := b.(*MapObj)
		return ok && x == y
	case *ChanObj:
		y, ok := b.(*ChanObj)
		return ok && x == y
	case SliceV:
		y, ok := b.(SliceV)
		return ok && x == y
	case *Term:
		return a == b
	}
	return false
}
