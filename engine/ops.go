package main

import (
	"fmt"
	"go/token"
	"go/types"

	"golang.org/x/tools/go/ssa"
)

func (e *Engine) shiftAmount(y *Term, w int, ySigned bool) *Term {
	// Returns y normalised to width w, saturated to w when y >= w.
	if y.sort.W == w {
		return y
	}
	if y.sort.W < w {
		return e.ts.Zext(y, w)
	}
	big := e.ts.Not(e.ts.BvCmp(OpBvUlt, y, e.ts.BVConst(y.sort.W, uint64(w))))
	return e.ts.Ite(big, e.ts.BVConst(w, uint64(w)), e.ts.Extract(w-1, 0, y))
}

func (e *Engine) binop(op token.Token, a, b Value, ta, tb types.Type) Value {
	ts := e.ts
	switch x := a.(type) {
	case *Term:
		y, ok := b.(*Term)
		if !ok {
			e.fail("binop %v: %T vs %T", op, a, b)
		}
		switch x.sort.K {
		case SBool:
			switch op {
			case token.EQL:
				return ts.Eq(x, y)
			case token.NEQ:
				return ts.Not(ts.Eq(x, y))
			case token.AND, token.LAND:
				return ts.And(x, y)
			case token.OR, token.LOR:
				return ts.Or(x, y)
			}
		case SFP:
			switch op {
			case token.ADD:
				return ts.FpBin(OpFpAdd, x, y)
			case token.SUB:
				return ts.FpBin(OpFpSub, x, y)
			case token.MUL:
				return ts.FpBin(OpFpMul, x, y)
			case token.QUO:
				return ts.FpBin(OpFpDiv, x, y)
			case token.EQL:
				return ts.FpCmp(OpFpEq, x, y)
			case token.NEQ:
				return ts.Not(ts.FpCmp(OpFpEq, x, y))
			case token.LSS:
				return ts.FpCmp(OpFpLt, x, y)
			case token.LEQ:
				return ts.FpCmp(OpFpLe, x, y)
			case token.GTR:
				return ts.FpCmp(OpFpLt, y, x)
			case token.GEQ:
				return ts.FpCmp(OpFpLe, y, x)
			}
		case SBV:
			signed := isSigned(ta)
			w := x.sort.W
			switch op {
			case token.SHL, token.SHR:
				if isSigned(tb) {
					e.vc(ts.BvCmp(OpBvSlt, y, ts.BVConst(y.sort.W, 0)), "negative shift amount")
				}
				sh := e.shiftAmount(y, w, false)
				if op == token.SHL {
					return ts.BvBin(OpBvShl, x, sh)
				}
				if signed {
					return ts.BvBin(OpBvAshr, x, sh)
				}
				return ts.BvBin(OpBvLshr, x, sh)
			}
			if y.sort != x.sort {
				e.fail("binop %v width mismatch %v %v", op, x.sort, y.sort)
			}
			switch op {
			case token.ADD:
				return ts.BvBin(OpBvAdd, x, y)
			case token.SUB:
				return ts.BvBin(OpBvSub, x, y)
			case token.MUL:
				return ts.BvBin(OpBvMul, x, y)
			case token.QUO, token.REM:
				e.vc(ts.Eq(y, ts.BVConst(w, 0)), "integer divide by zero")
				var o Op
				switch {
				case op == token.QUO && signed:
					o = OpBvSDiv
				case op == token.QUO:
					o = OpBvUDiv
				case signed:
					o = OpBvSRem
				default:
					o = OpBvURem
				}
				return ts.BvBin(o, x, y)
			case token.AND:
				return ts.BvBin(OpBvAnd, x, y)
			case token.OR:
				return ts.BvBin(OpBvOr, x, y)
			case token.XOR:
				return ts.BvBin(OpBvXor, x, y)
			case token.AND_NOT:
				return ts.BvBin(OpBvAnd, x, ts.BvNot(y))
			case token.EQL:
				return ts.Eq(x, y)
			case token.NEQ:
				return ts.Not(ts.Eq(x, y))
			case token.LSS:
				if signed {
					return ts.BvCmp(OpBvSlt, x, y)
				}
				return ts.BvCmp(OpBvUlt, x, y)
			case token.LEQ:
				if signed {
					return ts.BvCmp(OpBvSle, x, y)
				}
				return ts.BvCmp(OpBvUle, x, y)
			case token.GTR:
				if signed {
					return ts.BvCmp(OpBvSlt, y, x)
				}
				return ts.BvCmp(OpBvUlt, y, x)
			case token.GEQ:
				if signed {
					return ts.BvCmp(OpBvSle, y, x)
				}
				return ts.BvCmp(OpBvUle, y, x)
			}
		}
	case StringV:
		y := b.(StringV)
		switch op {
		case token.ADD:
			return StringV{s: x.s + y.s, opaque: x.opaque || y.opaque}
		case token.EQL:
			return e.valueEq(x, y)
		case token.NEQ:
			return ts.Not(e.valueEq(x, y))
		case token.LSS:
			return ts.Bool(x.s < y.s)
		case token.GTR:
			return ts.Bool(x.s > y.s)
		case token.LEQ:
			return ts.Bool(x.s <= y.s)
		case token.GEQ:
			return ts.Bool(x.s >= y.s)
		}
	}
	switch op {
	case token.EQL:
		return e.valueEq(a, b)
	case token.NEQ:
		return ts.Not(e.valueEq(a, b))
	}
	e.fail("unsupported binop %v on %T,%T", op, a, b)
	return nil
}

func (e *Engine) convert(v Value, from, to types.Type) Value {
	ts := e.ts
	fs, fok := e.sortOf(from)
	tsrt, tok := e.sortOf(to)
	if fok && tok {
		t := v.(*Term)
		switch {
		case fs.K == SBV && tsrt.K == SBV:
			if tsrt.W <= fs.W {
				return ts.Extract(tsrt.W-1, 0, t)
			}
			if isSigned(from) {
				return ts.Sext(t, tsrt.W)
			}
			return ts.Zext(t, tsrt.W)
		case fs.K == SBV && tsrt.K == SFP:
			return ts.FpFromBV(t, isSigned(from))
		case fs.K == SFP && tsrt.K == SBV:
			return ts.FpToBV(t, tsrt.W, isSigned(to))
		case fs.K == SFP && tsrt.K == SFP:
			return t
		case fs.K == SBool && tsrt.K == SBool:
			return t
		}
	}
	// string <-> []byte
	if isString(from) {
		if sl, ok := to.Underlying().(*types.Slice); ok {
			s := v.(StringV)
			arr := e.newArrayCell(sl.Elem(), len(s.s))
			for i := 0; i < len(s.s); i++ {
				e.kid(arr, i).v = ts.BVConst(8, uint64(s.s[i]))
			}
			return SliceV{arr: arr, len: len(s.s), cap: len(s.s)}
		}
		if isString(to) {
			return v
		}
	}
	if isString(to) {
		if _, ok := from.Underlying().(*types.Slice); ok {
			s := v.(SliceV)
			buf := make([]byte, s.len)
			opaque := false
			for i := 0; i < s.len; i++ {
				t := e.kid(s.arr, s.off+i).v.(*Term)
				if t.IsConst() {
					buf[i] = byte(t.val)
				} else {
					opaque = true
					buf[i] = '?'
				}
			}
			return StringV{s: string(buf), opaque: opaque}
		}
		if fok && fs.K == SBV {
			t := v.(*Term)
			if t.IsConst() {
				return StringV{s: string(rune(t.val))}
			}
			return StringV{s: "?", opaque: true}
		}
	}
	// pointer conversions (unsafe.Pointer etc.) and identical underlying types
	switch v.(type) {
	case Ptr, SliceV, *MapObj, *ChanObj, FuncV, StructV, ArrayV:
		return v
	}
	e.fail("unsupported conversion %v -> %v (%T)", from, to, v)
	return nil
}

// ---------------------------------------------------------------- builtins

func (e *Engine) intConst(n int) *Term { return e.ts.BVConst(64, uint64(int64(n))) }

func (e *Engine) builtin(fr *Frame, bi *ssa.Builtin, c *ssa.CallCommon, args []Value) Value {
	switch bi.Name() {
	case "len":
		switch x := args[0].(type) {
		case SliceV:
			return e.intConst(x.len)
		case StringV:
			return e.intConst(len(x.s))
		case *MapObj:
			if x == nil {
				return e.intConst(0)
			}
			return e.intConst(len(x.keys))
		case *ChanObj:
			if x == nil {
				return e.intConst(0)
			}
			return e.intConst(len(x.buf))
		case ArrayV:
			return e.intConst(len(x))
		case Ptr:
			return e.intConst(x.c.n)
		}
	case "cap":
		switch x := args[0].(type) {
		case SliceV:
			return e.intConst(x.cap)
		case *ChanObj:
			if x == nil {
				return e.intConst(0)
			}
			return e.intConst(x.cap)
		case ArrayV:
			return e.intConst(len(x))
		}
	case "append":
		s := args[0].(SliceV)
		var add []Value
		var elemT types.Type
		if st, ok := c.Args[0].Type().Underlying().(*types.Slice); ok {
			elemT = st.Elem()
		} else {
			e.fail("append on non-slice type")
		}
		switch y := args[1].(type) {
		case SliceV:
			for i := 0; i < y.len; i++ {
				add = append(add, e.load(e.kid(y.arr, y.off+i)))
			}
		case StringV:
			for i := 0; i < len(y.s); i++ {
				add = append(add, e.ts.BVConst(8, uint64(y.s[i])))
			}
		default:
			e.fail("append of %T", y)
		}
		if len(add) == 0 {
			return s
		}
		if s.arr != nil && s.len+len(add) <= s.cap {
			for i, v := range add {
				e.store(e.kid(s.arr, s.off+s.len+i), v)
			}
			return SliceV{arr: s.arr, off: s.off, len: s.len + len(add), cap: s.cap}
		}
		if e.noFork > 0 {
			panic(mergeAbort{"append realloc in merge"})
		}
		ncap := s.len + len(add)
		if ncap < 2*s.cap {
			ncap = 2 * s.cap
		}
		arr := e.newArrayCell(elemT, ncap)
		for i := 0; i < s.len; i++ {
			e.store(e.kid(arr, i), e.load(e.kid(s.arr, s.off+i)))
		}
		for i, v := range add {
			e.store(e.kid(arr, s.len+i), v)
		}
		return SliceV{arr: arr, off: 0, len: s.len + len(add), cap: ncap}
	case "copy":
		d := args[0].(SliceV)
		var src []Value
		switch y := args[1].(type) {
		case SliceV:
			for i := 0; i < y.len; i++ {
				src = append(src, e.load(e.kid(y.arr, y.off+i)))
			}
		case StringV:
			for i := 0; i < len(y.s); i++ {
				src = append(src, e.ts.BVConst(8, uint64(y.s[i])))
			}
		}
		n := len(src)
		if d.len < n {
			n = d.len
		}
		for i := 0; i < n; i++ {
			e.store(e.kid(d.arr, d.off+i), src[i])
		}
		return e.intConst(n)
	case "delete":
		m := args[0].(*MapObj)
		if m != nil {
			e.mapDelete(m, args[1])
		}
		return nil
	case "close":
		ch := args[0].(*ChanObj)
		e.chanClose(ch)
		return nil
	case "min", "max":
		acc := args[0].(*Term)
		t := c.Args[0].Type()
		for _, a := range args[1:] {
			y := a.(*Term)
			var lt *Term
			switch {
			case acc.sort.K == SFP:
				lt = e.ts.FpCmp(OpFpLt, acc, y)
			case isSigned(t):
				lt = e.ts.BvCmp(OpBvSlt, acc, y)
			default:
				lt = e.ts.BvCmp(OpBvUlt, acc, y)
			}
			if bi.Name() == "min" {
				acc = e.ts.Ite(lt, acc, y)
			} else {
				acc = e.ts.Ite(lt, y, acc)
			}
		}
		return acc
	case "print", "println":
		return nil
	case "recover":
		return IfaceV{}
	case "clear":
		switch x := args[0].(type) {
		case *MapObj:
			if x != nil {
				x.keys, x.vals = nil, nil
			}
		case SliceV:
			for i := 0; i < x.len; i++ {
				k := e.kid(x.arr, x.off+i)
				e.store(k, e.zero(k.typ))
			}
		}
		return nil
	case "ssa:wrapnilchk":
		p := args[0].(Ptr)
		if p.c == nil && p.arr == nil {
			e.vc(e.ts.True, "nil pointer in method wrapper")
		}
		return args[0]
	}
	e.fail("unsupported builtin %s on %T", bi.Name(), args[0])
	return nil
}

func (e *Engine) builtinDeferred(bi *ssa.Builtin, args []Value) Value {
	switch bi.Name() {
	case "close":
		e.chanClose(args[0].(*ChanObj))
		return nil
	case "recover":
		return IfaceV{}
	case "delete":
		if m := args[0].(*MapObj); m != nil {
			e.mapDelete(m, args[1])
		}
		return nil
	}
	e.fail("unsupported deferred builtin %s", bi.Name())
	return nil
}

// ---------------------------------------------------------------- channels

func (e *Engine) chanClose(ch *ChanObj) {
	if ch == nil {
		e.vc(e.ts.True, "close of nil channel")
		panic(pathEnd{kind: "infeasible"})
	}
	if ch.closed {
		e.vc(e.ts.True, "close of closed channel")
		panic(pathEnd{kind: "infeasible"})
	}
	ch.closed = true
}

func (e *Engine) chanSend(ch *ChanObj, v Value) {
	if ch == nil {
		e.block("send on nil channel")
	}
	if ch.closed {
		e.vc(e.ts.True, "send on closed channel")
		panic(pathEnd{kind: "infeasible"})
	}
	for {
		if e.canSend(ch) {
			ch.buf = append(ch.buf, v)
			return
		}
		if ch.closed {
			break
		}
		var o *sendOffer
		if ch.cap == 0 && e.inGoroutine == 0 {
			o = &sendOffer{val: v}
			ch.offer = o
		}
		ran := e.runQueued()
		ch.offer = nil
		if o != nil && o.taken {
			return
		}
		if !ran {
			break
		}
	}
	if ch.closed {
		e.vc(e.ts.True, "send on closed channel")
		panic(pathEnd{kind: "infeasible"})
	}
	e.block("send on full channel")
}

// offered: the harness goroutine is parked sending on ch and nobody has taken the value yet.
func (e *Engine) offered(ch *ChanObj) bool {
	return e.inGoroutine > 0 && ch.offer != nil && !ch.offer.taken && len(ch.buf) == 0
}

func (e *Engine) chanRecv(ch *ChanObj) (Value, bool) {
	if ch == nil || ch.never {
		e.block("receive on nil/never channel")
	}
	for {
		if len(ch.buf) > 0 {
			v := ch.buf[0]
			ch.buf = ch.buf[1:]
			return v, true
		}
		if e.offered(ch) {
			ch.offer.taken = true
			return ch.offer.val, true
		}
		if ch.closed {
			return e.zero(ch.elemT), false
		}
		ch.recvWaiting++
		ran := e.runQueued()
		ch.recvWaiting--
		if ran {
			continue
		}
		if ch.timer != nil && ch.timer.timerArmed {
			e.fireTimer(ch)
			continue
		}
		break
	}
	e.block("receive on empty channel")
	panic("unreachable")
}

// canSend: room in the buffer, or (unbuffered) the harness goroutine is parked receiving on it.
func (e *Engine) canSend(ch *ChanObj) bool {
	return len(ch.buf) < ch.cap || (ch.cap == 0 && ch.recvWaiting > 0 && len(ch.buf) == 0)
}

func (e *Engine) selectOp(fr *Frame, x *ssa.Select) Value {
	type st struct {
		ch   *ChanObj
		send bool
		val  Value
	}
	var states []st
	var ready []int
	takenIdx := -1
	var timers []int // receive cases on the channel of an armed timer that has not fired yet
	for _, s := range x.States {
		ch, _ := e.get(fr, s.Chan).(*ChanObj)
		cur := st{ch: ch, send: s.Dir == types.SendOnly}
		if cur.send {
			cur.val = e.get(fr, s.Send)
		}
		states = append(states, cur)
	}
	for {
		ready, timers = ready[:0], timers[:0]
		for i, cur := range states {
			ch := cur.ch
			if ch == nil || ch.never {
				continue
			}
			if cur.send {
				if ch.closed || e.canSend(ch) {
					ready = append(ready, i)
				}
			} else if len(ch.buf) > 0 || ch.closed || e.offered(ch) {
				ready = append(ready, i)
			} else if ch.timer != nil && ch.timer.timerArmed {
				timers = append(timers, i)
			}
		}
		if len(ready) > 0 || !x.Blocking {
			break
		}
		// the harness goroutine cannot proceed: queued goroutines run (it counts as a waiting
		// receiver on the channels of its receive cases), then the cases are looked at again
		offers := map[int]*sendOffer{}
		for i, cur := range states {
			if cur.ch == nil {
				continue
			}
			if !cur.send {
				cur.ch.recvWaiting++
			} else if cur.ch.cap == 0 && !cur.ch.closed && e.inGoroutine == 0 && cur.ch.offer == nil {
				o := &sendOffer{val: cur.val}
				cur.ch.offer = o
				offers[i] = o
			}
		}
		ran := e.runQueued()
		for i, cur := range states {
			if cur.ch == nil {
				continue
			}
			if !cur.send {
				cur.ch.recvWaiting--
			} else if o, ok := offers[i]; ok {
				cur.ch.offer = nil
				if o.taken && takenIdx < 0 {
					takenIdx = i
				}
			}
		}
		if takenIdx >= 0 || !ran {
			break
		}
	}
	if takenIdx >= 0 {
		// a queued goroutine received what this select was offering: that send case happened
		res := TupleV{e.intConst(takenIdx), e.ts.False}
		for _, s := range x.States {
			if s.Dir == types.RecvOnly {
				res = append(res, e.zero(s.Chan.Type().Underlying().(*types.Chan).Elem()))
			}
		}
		return res
	}
	if len(ready) == 0 && x.Blocking && len(timers) > 0 {
		// nothing else can make progress in the sequential execution: time passes until the
		// first timer expires (the earliest case in source order stands for it)
		e.fireTimer(states[timers[0]].ch)
		ready = append(ready, timers[0])
	}
	idx := -1
	switch {
	case len(ready) == 1:
		idx = ready[0]
	case len(ready) > 1:
		conds := make([]*Term, len(ready))
		for i := range conds {
			conds[i] = e.ts.True
		}
		// nondeterministic choice among ready cases: every alternative is explored
		idx = ready[e.choose(conds, nil)]
	case !x.Blocking:
		idx = -1
	default:
		e.block("select with no ready case")
	}
	res := TupleV{e.intConst(idx), e.ts.False}
	// receive values for all recv states in order
	for i, s := range x.States {
		if s.Dir == types.RecvOnly {
			var v Value
			if i == idx {
				vv, ok := e.chanRecv(states[i].ch)
				v = vv
				res[1] = e.ts.Bool(ok)
			} else {
				v = e.zero(s.Chan.Type().Underlying().(*types.Chan).Elem())
			}
			res = append(res, v)
		} else if i == idx {
			e.chanSend(states[i].ch, states[i].val)
		}
	}
	return res
}

// pick makes an n-way concrete nondeterministic choice (recorded in the vector).
func (e *Engine) pick(n int) int {
	if n <= 0 {
		e.fail("pick(%d)", n)
	}
	if n == 1 {
		e.nondets = append(e.nondets, NondetRec{Kind: "pick", Value: 0})
		return 0
	}
	conds := make([]*Term, n)
	for i := range conds {
		conds[i] = e.ts.True
	}
	k := e.choose(conds, nil)
	e.nondets = append(e.nondets, NondetRec{Kind: "pick", Value: uint64(k)})
	return k
}

func (e *Engine) freshVar(kind string, s Sort) *Term {
	name := fmt.Sprintf("n%d_%s", len(e.nondets), kind)
	t := e.newVar(name, s)
	e.nondets = append(e.nondets, NondetRec{Kind: kind, Term: t})
	return t
}
