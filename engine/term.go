package main

// Hash-consed SMT terms with constant folding. Sorts: Bool, BV(n), FP64.

import (
	"fmt"
	"math"
	"math/bits"
	"strings"
)

type SortKind uint8

const (
	SBool SortKind = iota
	SBV
	SFP
)

type Sort struct {
	K SortKind
	W int // bit width for BV
}

func (s Sort) String() string {
	switch s.K {
	case SBool:
		return "Bool"
	case SBV:
		return fmt.Sprintf("(_ BitVec %d)", s.W)
	default:
		return "(_ FloatingPoint 11 53)"
	}
}

var (
	BoolSort = Sort{SBool, 0}
	FPSort   = Sort{SFP, 64}
)

func BV(w int) Sort { return Sort{SBV, w} }

type Op uint16

const (
	OpConst Op = iota
	OpVar
	OpNot
	OpAnd
	OpOr
	OpEq
	OpIte
	OpBvAdd
	OpBvSub
	OpBvMul
	OpBvUDiv
	OpBvURem
	OpBvSDiv
	OpBvSRem
	OpBvAnd
	OpBvOr
	OpBvXor
	OpBvNot
	OpBvNeg
	OpBvShl
	OpBvLshr
	OpBvAshr
	OpBvUlt
	OpBvUle
	OpBvSlt
	OpBvSle
	OpExtract // aux0=hi aux1=lo
	OpZext    // aux0 = extra bits
	OpSext
	OpConcat
	OpFpAdd
	OpFpSub
	OpFpMul
	OpFpDiv
	OpFpNeg
	OpFpAbs
	OpFpMin
	OpFpMax
	OpFpLt
	OpFpLe
	OpFpEq
	OpFpIsNaN
	OpFpIsInf
	OpFpFromSBV // BV -> FP (signed)
	OpFpFromUBV
	OpFpToSBV // FP -> BV (aux0 = width), RTZ
	OpFpToUBV
	OpFpFromBits // BV64 -> FP reinterpret
)

var opNames = map[Op]string{
	OpNot: "not", OpAnd: "and", OpOr: "or", OpEq: "=", OpIte: "ite",
	OpBvAdd: "bvadd", OpBvSub: "bvsub", OpBvMul: "bvmul", OpBvUDiv: "bvudiv", OpBvURem: "bvurem",
	OpBvSDiv: "bvsdiv", OpBvSRem: "bvsrem", OpBvAnd: "bvand", OpBvOr: "bvor", OpBvXor: "bvxor",
	OpBvNot: "bvnot", OpBvNeg: "bvneg", OpBvShl: "bvshl", OpBvLshr: "bvlshr", OpBvAshr: "bvashr",
	OpBvUlt: "bvult", OpBvUle: "bvule", OpBvSlt: "bvslt", OpBvSle: "bvsle", OpConcat: "concat",
	OpFpAdd: "fp.add RNE", OpFpSub: "fp.sub RNE", OpFpMul: "fp.mul RNE", OpFpDiv: "fp.div RNE",
	OpFpNeg: "fp.neg", OpFpAbs: "fp.abs", OpFpMin: "fp.min", OpFpMax: "fp.max",
	OpFpLt: "fp.lt", OpFpLe: "fp.leq", OpFpEq: "fp.eq", OpFpIsNaN: "fp.isNaN", OpFpIsInf: "fp.isInfinite",
}

type Term struct {
	id   int
	op   Op
	sort Sort
	args []*Term
	val  uint64 // constants (BV<=64, Bool 0/1, FP bits)
	name string // variables
	a0   int
	a1   int
}

func (t *Term) IsConst() bool { return t.op == OpConst }
func (t *Term) Sort() Sort    { return t.sort }

type TermStore struct {
	tab    map[string]*Term
	nextID int
	vars   []*Term
	True   *Term
	False  *Term
	fpUsed bool
}

func NewTermStore() *TermStore {
	ts := &TermStore{tab: map[string]*Term{}}
	ts.True = ts.mk(&Term{op: OpConst, sort: BoolSort, val: 1})
	ts.False = ts.mk(&Term{op: OpConst, sort: BoolSort, val: 0})
	return ts
}

func (ts *TermStore) key(t *Term) string {
	var sb strings.Builder
	fmt.Fprintf(&sb, "%d|%d.%d|%d|%s|%d|%d", t.op, t.sort.K, t.sort.W, t.val, t.name, t.a0, t.a1)
	for _, a := range t.args {
		fmt.Fprintf(&sb, ",%d", a.id)
	}
	return sb.String()
}

func (ts *TermStore) mk(t *Term) *Term {
	k := ts.key(t)
	if e, ok := ts.tab[k]; ok {
		return e
	}
	t.id = ts.nextID
	ts.nextID++
	if t.op >= OpFpAdd && t.op <= OpFpFromBits && len(t.args) > 0 {
		ts.fpUsed = true
	}
	ts.tab[k] = t
	if t.op == OpVar {
		ts.vars = append(ts.vars, t)
	}
	return t
}

func mask(w int) uint64 {
	if w >= 64 {
		return ^uint64(0)
	}
	return (uint64(1) << uint(w)) - 1
}

func (ts *TermStore) Bool(b bool) *Term {
	if b {
		return ts.True
	}
	return ts.False
}

func (ts *TermStore) BVConst(w int, v uint64) *Term {
	return ts.mk(&Term{op: OpConst, sort: BV(w), val: v & mask(w)})
}

func (ts *TermStore) FPConst(f float64) *Term {
	return ts.mk(&Term{op: OpConst, sort: FPSort, val: math.Float64bits(f)})
}

func (ts *TermStore) Var(name string, s Sort) *Term {
	return ts.mk(&Term{op: OpVar, sort: s, name: name})
}

func sext64(v uint64, w int) int64 {
	if w >= 64 {
		return int64(v)
	}
	sh := uint(64 - w)
	return int64(v<<sh) >> sh
}

func (ts *TermStore) Not(a *Term) *Term {
	if a.IsConst() {
		return ts.Bool(a.val == 0)
	}
	if a.op == OpNot {
		return a.args[0]
	}
	return ts.mk(&Term{op: OpNot, sort: BoolSort, args: []*Term{a}})
}

func (ts *TermStore) And(a, b *Term) *Term {
	if a.IsConst() {
		if a.val == 0 {
			return ts.False
		}
		return b
	}
	if b.IsConst() {
		if b.val == 0 {
			return ts.False
		}
		return a
	}
	if a == b {
		return a
	}
	if a.id > b.id {
		a, b = b, a
	}
	return ts.mk(&Term{op: OpAnd, sort: BoolSort, args: []*Term{a, b}})
}

func (ts *TermStore) Or(a, b *Term) *Term {
	if a.IsConst() {
		if a.val == 1 {
			return ts.True
		}
		return b
	}
	if b.IsConst() {
		if b.val == 1 {
			return ts.True
		}
		return a
	}
	if a == b {
		return a
	}
	if a.id > b.id {
		a, b = b, a
	}
	return ts.mk(&Term{op: OpOr, sort: BoolSort, args: []*Term{a, b}})
}

func (ts *TermStore) Eq(a, b *Term) *Term {
	if a.sort != b.sort {
		panic(fmt.Sprintf("Eq sort mismatch %v %v", a.sort, b.sort))
	}
	if a == b && a.sort.K != SFP {
		return ts.True
	}
	if a.IsConst() && b.IsConst() && a.sort.K != SFP {
		return ts.Bool(a.val == b.val)
	}
	if a.sort.K == SBool {
		if a.IsConst() {
			if a.val == 1 {
				return b
			}
			return ts.Not(b)
		}
		if b.IsConst() {
			if b.val == 1 {
				return a
			}
			return ts.Not(a)
		}
	}
	if a.sort.K == SFP {
		return ts.FpCmp(OpFpEq, a, b)
	}
	if a.id > b.id {
		a, b = b, a
	}
	return ts.mk(&Term{op: OpEq, sort: BoolSort, args: []*Term{a, b}})
}

func (ts *TermStore) Ite(c, a, b *Term) *Term {
	if c.IsConst() {
		if c.val == 1 {
			return a
		}
		return b
	}
	if a == b {
		return a
	}
	if a.sort != b.sort {
		panic(fmt.Sprintf("Ite sort mismatch %v %v", a.sort, b.sort))
	}
	if a.sort.K == SBool {
		if a.IsConst() && b.IsConst() {
			if a.val == 1 {
				return c
			}
			return ts.Not(c)
		}
		if a.IsConst() {
			if a.val == 1 {
				return ts.Or(c, b)
			}
			return ts.And(ts.Not(c), b)
		}
		if b.IsConst() {
			if b.val == 1 {
				return ts.Or(ts.Not(c), a)
			}
			return ts.And(c, a)
		}
	}
	return ts.mk(&Term{op: OpIte, sort: a.sort, args: []*Term{c, a, b}})
}

func foldBV(op Op, w int, x, y uint64) (uint64, bool) {
	m := mask(w)
	switch op {
	case OpBvAdd:
		return (x + y) & m, true
	case OpBvSub:
		return (x - y) & m, true
	case OpBvMul:
		return (x * y) & m, true
	case OpBvUDiv:
		if y == 0 {
			return m, true
		}
		return x / y, true
	case OpBvURem:
		if y == 0 {
			return x, true
		}
		return x % y, true
	case OpBvSDiv:
		if y == 0 {
			return 0, false
		}
		sx, sy := sext64(x, w), sext64(y, w)
		if sx == math.MinInt64 && sy == -1 {
			return uint64(sx) & m, true
		}
		return uint64(sx/sy) & m, true
	case OpBvSRem:
		if y == 0 {
			return 0, false
		}
		sx, sy := sext64(x, w), sext64(y, w)
		if sy == -1 {
			return 0, true
		}
		return uint64(sx%sy) & m, true
	case OpBvAnd:
		return x & y, true
	case OpBvOr:
		return x | y, true
	case OpBvXor:
		return x ^ y, true
	case OpBvShl:
		if y >= uint64(w) {
			return 0, true
		}
		return (x << y) & m, true
	case OpBvLshr:
		if y >= uint64(w) {
			return 0, true
		}
		return x >> y, true
	case OpBvAshr:
		sx := sext64(x, w)
		if y >= uint64(w) {
			y = uint64(w - 1)
		}
		return uint64(sx>>y) & m, true
	}
	return 0, false
}

func (ts *TermStore) BvBin(op Op, a, b *Term) *Term {
	if a.sort != b.sort || a.sort.K != SBV {
		panic(fmt.Sprintf("BvBin %s sort mismatch %v %v", opNames[op], a.sort, b.sort))
	}
	w := a.sort.W
	if a.IsConst() && b.IsConst() {
		if v, ok := foldBV(op, w, a.val, b.val); ok {
			return ts.BVConst(w, v)
		}
	}
	// signed division/remainder of a provably non-negative value by a positive constant is unsigned
	if (op == OpBvSDiv || op == OpBvSRem) && b.IsConst() && b.val != 0 && b.val < uint64(1)<<uint(w-1) && ub(a, 6) < uint64(1)<<uint(w-1) {
		if op == OpBvSDiv {
			return ts.BvBin(OpBvUDiv, a, b)
		}
		return ts.BvBin(OpBvURem, a, b)
	}
	switch op {
	case OpBvAdd, OpBvOr, OpBvXor:
		if a.IsConst() && a.val == 0 {
			return b
		}
		if b.IsConst() && b.val == 0 {
			return a
		}
	case OpBvSub, OpBvShl, OpBvLshr, OpBvAshr:
		if b.IsConst() && b.val == 0 {
			return a
		}
		if op == OpBvSub && a == b {
			return ts.BVConst(w, 0)
		}
	case OpBvAnd:
		if a.IsConst() && a.val == 0 || b.IsConst() && b.val == 0 {
			return ts.BVConst(w, 0)
		}
		if a.IsConst() && a.val == mask(w) {
			return b
		}
		if b.IsConst() && b.val == mask(w) {
			return a
		}
		if a == b {
			return a
		}
	case OpBvMul:
		if a.IsConst() && a.val == 1 {
			return b
		}
		if b.IsConst() && b.val == 1 {
			return a
		}
		if a.IsConst() && a.val == 0 || b.IsConst() && b.val == 0 {
			return ts.BVConst(w, 0)
		}
	case OpBvUDiv:
		if b.IsConst() && b.val == 1 {
			return a
		}
		if b.IsConst() && b.val != 0 && b.val&(b.val-1) == 0 {
			k := 0
			for v := b.val; v > 1; v >>= 1 {
				k++
			}
			return ts.BvBin(OpBvLshr, a, ts.BVConst(w, uint64(k)))
		}
	case OpBvURem:
		if b.IsConst() && b.val == 1 {
			return ts.BVConst(w, 0)
		}
		if b.IsConst() && b.val != 0 && b.val&(b.val-1) == 0 {
			return ts.BvBin(OpBvAnd, a, ts.BVConst(w, b.val-1))
		}
	}
	switch op {
	case OpBvAdd, OpBvMul, OpBvAnd, OpBvOr, OpBvXor:
		if a.id > b.id {
			a, b = b, a
		}
	}
	return ts.mk(&Term{op: op, sort: a.sort, args: []*Term{a, b}})
}

func (ts *TermStore) BvCmp(op Op, a, b *Term) *Term {
	if a.sort != b.sort || a.sort.K != SBV {
		panic(fmt.Sprintf("BvCmp sort mismatch %v %v", a.sort, b.sort))
	}
	w := a.sort.W
	if a.IsConst() && b.IsConst() {
		switch op {
		case OpBvUlt:
			return ts.Bool(a.val < b.val)
		case OpBvUle:
			return ts.Bool(a.val <= b.val)
		case OpBvSlt:
			return ts.Bool(sext64(a.val, w) < sext64(b.val, w))
		case OpBvSle:
			return ts.Bool(sext64(a.val, w) <= sext64(b.val, w))
		}
	}
	if a == b {
		return ts.Bool(op == OpBvUle || op == OpBvSle)
	}
	if b.IsConst() && (op == OpBvUlt || op == OpBvUle) {
		u := ub(a, 6)
		if op == OpBvUlt && u < b.val || op == OpBvUle && u <= b.val {
			return ts.True
		}
	}
	return ts.mk(&Term{op: op, sort: BoolSort, args: []*Term{a, b}})
}

func (ts *TermStore) BvNot(a *Term) *Term {
	if a.IsConst() {
		return ts.BVConst(a.sort.W, ^a.val)
	}
	return ts.mk(&Term{op: OpBvNot, sort: a.sort, args: []*Term{a}})
}

func (ts *TermStore) BvNeg(a *Term) *Term {
	if a.IsConst() {
		return ts.BVConst(a.sort.W, -a.val)
	}
	return ts.mk(&Term{op: OpBvNeg, sort: a.sort, args: []*Term{a}})
}

func (ts *TermStore) Extract(hi, lo int, a *Term) *Term {
	w := hi - lo + 1
	if lo == 0 && w == a.sort.W {
		return a
	}
	if a.IsConst() {
		return ts.BVConst(w, a.val>>uint(lo))
	}
	if (a.op == OpZext || a.op == OpSext) && lo == 0 && w <= a.args[0].sort.W {
		return ts.Extract(hi, 0, a.args[0])
	}
	return ts.mk(&Term{op: OpExtract, sort: BV(w), args: []*Term{a}, a0: hi, a1: lo})
}

func (ts *TermStore) Zext(a *Term, to int) *Term {
	if to == a.sort.W {
		return a
	}
	if to < a.sort.W {
		return ts.Extract(to-1, 0, a)
	}
	if a.IsConst() {
		return ts.BVConst(to, a.val)
	}
	return ts.mk(&Term{op: OpZext, sort: BV(to), args: []*Term{a}, a0: to - a.sort.W})
}

func (ts *TermStore) Sext(a *Term, to int) *Term {
	if to == a.sort.W {
		return a
	}
	if to < a.sort.W {
		return ts.Extract(to-1, 0, a)
	}
	if a.IsConst() {
		return ts.BVConst(to, uint64(sext64(a.val, a.sort.W)))
	}
	return ts.mk(&Term{op: OpSext, sort: BV(to), args: []*Term{a}, a0: to - a.sort.W})
}

func (ts *TermStore) Concat(hi, lo *Term) *Term {
	w := hi.sort.W + lo.sort.W
	if hi.IsConst() && lo.IsConst() && w <= 64 {
		return ts.BVConst(w, hi.val<<uint(lo.sort.W)|lo.val)
	}
	return ts.mk(&Term{op: OpConcat, sort: BV(w), args: []*Term{hi, lo}})
}

// ---- floating point

func f64(t *Term) float64 { return math.Float64frombits(t.val) }

func (ts *TermStore) FpBin(op Op, a, b *Term) *Term {
	if a.IsConst() && b.IsConst() {
		x, y := f64(a), f64(b)
		switch op {
		case OpFpAdd:
			return ts.FPConst(x + y)
		case OpFpSub:
			return ts.FPConst(x - y)
		case OpFpMul:
			return ts.FPConst(x * y)
		case OpFpDiv:
			return ts.FPConst(x / y)
		case OpFpMin:
			if !math.IsNaN(x) && !math.IsNaN(y) && !(x == 0 && y == 0) {
				return ts.FPConst(math.Min(x, y))
			}
		case OpFpMax:
			if !math.IsNaN(x) && !math.IsNaN(y) && !(x == 0 && y == 0) {
				return ts.FPConst(math.Max(x, y))
			}
		}
	}
	return ts.mk(&Term{op: op, sort: FPSort, args: []*Term{a, b}})
}

func (ts *TermStore) FpUn(op Op, a *Term) *Term {
	if a.IsConst() {
		switch op {
		case OpFpNeg:
			return ts.FPConst(-f64(a))
		case OpFpAbs:
			return ts.FPConst(math.Abs(f64(a)))
		}
	}
	return ts.mk(&Term{op: op, sort: FPSort, args: []*Term{a}})
}

func (ts *TermStore) FpCmp(op Op, a, b *Term) *Term {
	if a.IsConst() && b.IsConst() {
		x, y := f64(a), f64(b)
		switch op {
		case OpFpLt:
			return ts.Bool(x < y)
		case OpFpLe:
			return ts.Bool(x <= y)
		case OpFpEq:
			return ts.Bool(x == y)
		}
	}
	return ts.mk(&Term{op: op, sort: BoolSort, args: []*Term{a, b}})
}

func (ts *TermStore) FpPred(op Op, a *Term) *Term {
	if a.IsConst() {
		switch op {
		case OpFpIsNaN:
			return ts.Bool(math.IsNaN(f64(a)))
		case OpFpIsInf:
			return ts.Bool(math.IsInf(f64(a), 0))
		}
	}
	return ts.mk(&Term{op: op, sort: BoolSort, args: []*Term{a}})
}

func (ts *TermStore) FpFromBV(a *Term, signed bool) *Term {
	if a.IsConst() {
		if signed {
			return ts.FPConst(float64(sext64(a.val, a.sort.W)))
		}
		return ts.FPConst(float64(a.val))
	}
	op := OpFpFromUBV
	if signed {
		op = OpFpFromSBV
	}
	return ts.mk(&Term{op: op, sort: FPSort, args: []*Term{a}})
}

func (ts *TermStore) FpToBV(a *Term, w int, signed bool) *Term {
	if a.IsConst() {
		f := f64(a)
		if !math.IsNaN(f) && !math.IsInf(f, 0) && math.Abs(f) < 9e18 {
			if signed {
				return ts.BVConst(w, uint64(int64(f)))
			} else if f >= 0 {
				return ts.BVConst(w, uint64(f))
			}
		}
	}
	op := OpFpToUBV
	if signed {
		op = OpFpToSBV
	}
	return ts.mk(&Term{op: op, sort: BV(w), args: []*Term{a}, a0: w})
}

func (ts *TermStore) FpFromBits(a *Term) *Term {
	if a.IsConst() {
		return ts.mk(&Term{op: OpConst, sort: FPSort, val: a.val})
	}
	return ts.mk(&Term{op: OpFpFromBits, sort: FPSort, args: []*Term{a}})
}

// popcount / ctz as bit-level terms

func (ts *TermStore) PopCount64(a *Term) *Term {
	if a.IsConst() {
		return ts.BVConst(64, uint64(bits.OnesCount64(a.val)))
	}
	// SWAR popcount
	c := func(v uint64) *Term { return ts.BVConst(64, v) }
	x := a
	x = ts.BvBin(OpBvSub, x, ts.BvBin(OpBvAnd, ts.BvBin(OpBvLshr, x, c(1)), c(0x5555555555555555)))
	x = ts.BvBin(OpBvAdd, ts.BvBin(OpBvAnd, x, c(0x3333333333333333)), ts.BvBin(OpBvAnd, ts.BvBin(OpBvLshr, x, c(2)), c(0x3333333333333333)))
	x = ts.BvBin(OpBvAnd, ts.BvBin(OpBvAdd, x, ts.BvBin(OpBvLshr, x, c(4))), c(0x0f0f0f0f0f0f0f0f))
	x = ts.BvBin(OpBvAdd, x, ts.BvBin(OpBvLshr, x, c(8)))
	x = ts.BvBin(OpBvAdd, x, ts.BvBin(OpBvLshr, x, c(16)))
	x = ts.BvBin(OpBvAdd, x, ts.BvBin(OpBvLshr, x, c(32)))
	return ts.BvBin(OpBvAnd, x, c(0x7f))
}

func (ts *TermStore) Ctz64(a *Term) *Term {
	if a.IsConst() {
		return ts.BVConst(64, uint64(bits.TrailingZeros64(a.val)))
	}
	// isolate the lowest set bit, then read its position off with six masks
	c := func(v uint64) *Term { return ts.BVConst(64, v) }
	lsb := ts.BvBin(OpBvAnd, a, ts.BvNeg(a))
	masks := []uint64{0xAAAAAAAAAAAAAAAA, 0xCCCCCCCCCCCCCCCC, 0xF0F0F0F0F0F0F0F0, 0xFF00FF00FF00FF00, 0xFFFF0000FFFF0000, 0xFFFFFFFF00000000}
	n := c(0)
	for k, mk := range masks {
		bit := ts.Not(ts.Eq(ts.BvBin(OpBvAnd, lsb, c(mk)), c(0)))
		n = ts.BvBin(OpBvOr, n, ts.Ite(bit, c(uint64(1)<<uint(k)), c(0)))
	}
	return ts.Ite(ts.Eq(a, c(0)), c(64), n)
}

// ---- printing

func bvLit(w int, v uint64) string {
	if w%4 == 0 {
		return fmt.Sprintf("#x%0*x", w/4, v&mask(w))
	}
	return fmt.Sprintf("#b%0*b", w, v&mask(w))
}

func (t *Term) leafString() string {
	switch t.op {
	case OpConst:
		switch t.sort.K {
		case SBool:
			if t.val == 1 {
				return "true"
			}
			return "false"
		case SBV:
			return bvLit(t.sort.W, t.val)
		default:
			return fmt.Sprintf("(fp #b%b #b%011b #b%052b)", t.val>>63, (t.val>>52)&0x7ff, t.val&((1<<52)-1))
		}
	case OpVar:
		return t.name
	}
	return fmt.Sprintf("t%d", t.id)
}

func (t *Term) defBody() string {
	var sb strings.Builder
	switch t.op {
	case OpExtract:
		fmt.Fprintf(&sb, "((_ extract %d %d) %s)", t.a0, t.a1, t.args[0].leafString())
	case OpZext:
		fmt.Fprintf(&sb, "((_ zero_extend %d) %s)", t.a0, t.args[0].leafString())
	case OpSext:
		fmt.Fprintf(&sb, "((_ sign_extend %d) %s)", t.a0, t.args[0].leafString())
	case OpFpFromSBV:
		fmt.Fprintf(&sb, "((_ to_fp 11 53) RNE %s)", t.args[0].leafString())
	case OpFpFromUBV:
		fmt.Fprintf(&sb, "((_ to_fp_unsigned 11 53) RNE %s)", t.args[0].leafString())
	case OpFpToSBV:
		fmt.Fprintf(&sb, "((_ fp.to_sbv %d) RTZ %s)", t.a0, t.args[0].leafString())
	case OpFpToUBV:
		fmt.Fprintf(&sb, "((_ fp.to_ubv %d) RTZ %s)", t.a0, t.args[0].leafString())
	case OpFpFromBits:
		fmt.Fprintf(&sb, "((_ to_fp 11 53) %s)", t.args[0].leafString())
	default:
		n, ok := opNames[t.op]
		if !ok {
			panic(fmt.Sprintf("no name for op %d", t.op))
		}
		sb.WriteString("(" + n)
		for _, a := range t.args {
			sb.WriteString(" " + a.leafString())
		}
		sb.WriteString(")")
	}
	return sb.String()
}

// String renders a term fully (for debugging / evidence samples), depth-limited.
func (t *Term) String() string { return t.render(6) }

func (t *Term) render(d int) string {
	if t.op == OpConst || t.op == OpVar {
		return t.leafString()
	}
	if d == 0 {
		return "…"
	}
	n := opNames[t.op]
	if n == "" {
		n = fmt.Sprintf("op%d", t.op)
	}
	s := "(" + n
	for _, a := range t.args {
		s += " " + a.render(d-1)
	}
	return s + ")"
}
