//go:build verif

package sctp

// C10 — the sender honours congestion window, peer receive window and MTU.

// C10.L1: admission of new data. Pending chunks of symbolic-chosen sizes, arbitrary
// cwnd / rwnd / bytes already in flight: every chunk moved to flight respects
// cwnd and rwnd, except a single probe chunk when nothing was in flight.
func vh_C10_L1_admission() {
	a, _ := vNewAssoc()
	s, err := a.OpenStream(1, PayloadTypeWebRTCBinary)
	vassert(err == nil, "open stream")
	sizes := []int{1, 7, 1000}
	nmsg := 2
	if vtier() > 0 {
		nmsg = 3
	}
	for i := 0; i < nmsg; i++ {
		n, werr := s.WriteSCTP(make([]byte, sizes[vPick(len(sizes))]), PayloadTypeWebRTCBinary)
		vassert(werr == nil && n > 0, "write accepted")
	}
	// in-flight bytes already outstanding: one earlier chunk of symbolic-chosen size, or none
	inflightBefore := 0
	if vPick(2) == 1 {
		c := &chunkPayloadData{tsn: a.generateNextTSN(), userData: make([]byte, sizes[vPick(len(sizes))]), beginningFragment: true, endingFragment: true}
		a.inflightQueue.pushNoCheck(c)
		inflightBefore = len(c.userData)
	}
	cwnd, rwnd := nondetU32(), nondetU32()
	vassume(cwnd <= 1<<24 && rwnd <= 1<<24)
	a.cwnd = cwnd
	a.rwnd = rwnd
	if inflightBefore > 0 && vPick(2) == 1 {
		// a tail-loss probe timer fired while data was waiting: the recovery episode it starts
		// does not suspend the congestion window for the first send of a flush
		a.onPTOTimer()
		vassert(a.tlrActive, "tail-loss recovery is active")
		vassert(a.cwnd == cwnd, "the probe timer alone does not change the window")
	}
	pendingBefore := a.pendingQueue.size()
	nextTSN := a.myNextTSN
	budget, consumed := int64(0), false
	chunks, _ := a.popPendingDataChunksToSend(&budget, &consumed)
	sent := 0
	for i, c := range chunks {
		vassert(c.tsn == nextTSN+uint32(i), "TSNs are assigned consecutively in queue order")
		sent += len(c.userData)
	}
	vassert(a.pendingQueue.size() == pendingBefore-len(chunks), "chunks leave the pending queue")
	vassert(a.inflightQueue.getNumBytes() == inflightBefore+sent, "in-flight byte count grows by what was sent")
	probe := len(chunks) == 1 && inflightBefore == 0 && (uint32(sent) > cwnd || uint32(sent) > rwnd)
	if !probe {
		vassert(uint32(inflightBefore+sent) <= cwnd || sent == 0, "bytes in flight stay within the congestion window")
		vassert(uint32(sent) <= rwnd, "new data stays within the peer's advertised window")
		vassert(a.rwnd == rwnd-uint32(sent), "rwnd is reduced by exactly the bytes sent")
	} else {
		vassert(a.rwnd == rwnd, "the window probe does not touch rwnd")
	}
	if inflightBefore == 0 && pendingBefore > 0 {
		vassert(len(chunks) >= 1, "with nothing in flight at least one chunk (the probe) is always sent")
	}
	vobserve("sent", uint64(sent))
	vobserve("n", uint64(len(chunks)))
	vcover("end")
}

// C10.L3: congestion window laws at the loss signals and on acknowledgement.
func vh_C10_L3_cwnd_laws() {
	vStub("setNewRTT")
	a, _ := vNewAssoc()
	mtu := a.MTU()
	cwnd := nondetU32()
	vassume(cwnd >= mtu && cwnd <= 1<<24)
	s, _ := a.OpenStream(1, PayloadTypeWebRTCBinary)
	for i := 0; i < 4; i++ {
		_, _ = s.WriteSCTP(make([]byte, 10), PayloadTypeWebRTCBinary)
	}
	a.cwnd, a.rwnd = 1<<20, 1<<20
	budget, consumed := int64(0), false
	a.lock.Lock()
	chunks, _ := a.popPendingDataChunksToSend(&budget, &consumed)
	a.lock.Unlock()
	vassert(len(chunks) == 4, "four chunks in flight")
	base := a.cumulativeTSNAckPoint
	a.cwnd = cwnd
	a.ssthresh = nondetU32()
	a.minCwnd = []uint32{0, mtu / 2, 2 * mtu}[vPick(3)] // any configured floor, also one below the MTU
	vassume(cwnd >= a.minCwnd)                          // setCWND never leaves cwnd below the configured minimum
	floor := mtu
	if a.minCwnd > floor {
		floor = a.minCwnd
	}
	switch vPick(4) {
	case 3: // a second T3 expiry in one back-off series, after fast recovery had reopened the window
		a.t3RTX.start(1000)
		vassert(vFireRtx(a, a.t3RTX), "T3 expires")
		vassert(a.cwnd == floor, "first expiry: cwnd = 1 MTU")
		chunks[0].missIndicator = 2
		sack := &chunkSelectiveAck{cumulativeTSNAck: base, advertisedReceiverWindowCredit: 1 << 20, gapAckBlocks: []gapAckBlock{{2, 2}}}
		vassert(vDeliver(a, sack) == nil, "SACK ok")
		vassert(a.inFastRecovery && a.cwnd >= 4*mtu, "fast recovery entered without the ack point moving: cwnd = ssthresh >= 4 MTU")
		vassert(vFireRtx(a, a.t3RTX), "T3 expires again (same series, not restarted)")
		vassert(a.cwnd == floor, "every T3 expiry is a loss signal: cwnd = 1 MTU again")
		vassert(!a.inFastRecovery, "T3 leaves fast recovery")
		vcover("t3-twice")
	case 0: // T3 expiry
		a.t3RTX.start(1000)
		rwndBefore := a.RWND()
		vassert(vFireRtx(a, a.t3RTX), "T3 expires")
		vassert(a.RWND() == rwndBefore, "a T3 expiry does not credit the peer window: the chunks stay counted as outstanding")
		want := cwnd / 2
		if want < 4*mtu {
			want = 4 * mtu
		}
		vassert(a.ssthresh == want, "T3: ssthresh = max(cwnd/2, 4*MTU)")
		vassert(a.cwnd == floor, "T3: cwnd = 1 MTU (or the configured minimum when that is larger)")
		vassert(a.cwnd >= mtu, "the congestion window never falls below one MTU")
		vassert(!a.inFastRecovery, "T3 leaves fast recovery")
		vcover("t3")
	case 1: // third miss indication: fast retransmit / fast recovery, once
		if vPick(2) == 1 {
			a.onPTOTimer() // a tail-loss probe fired before: its recovery episode does not suspend the window cut
			vassert(a.tlrActive, "tail-loss recovery is active")
		}
		chunks[0].missIndicator = 2
		chunks[0].nSent = uint32(1 + vPick(2)) // sent once, or already retransmitted once (by RACK, say) and lost again: a loss signal all the same
		sack := &chunkSelectiveAck{cumulativeTSNAck: base, advertisedReceiverWindowCredit: 1 << 20, gapAckBlocks: []gapAckBlock{{2, 2}}}
		if vPick(2) == 1 {
			// the three reports arrive as three copies of one SACK (the network duplicated it):
			// the second and third acknowledge nothing new but still report the chunk missing
			chunks[0].missIndicator = 0
			vassert(vDeliver(a, sack) == nil && vDeliver(a, sack) == nil, "SACK ok")
			vassert(!a.inFastRecovery, "two reports are not yet a loss signal")
		}
		vassert(vDeliver(a, sack) == nil, "SACK ok")
		want := cwnd / 2
		if want < 4*mtu {
			want = 4 * mtu
		}
		vassert(a.inFastRecovery && a.willRetransmitFast, "three miss indications start fast recovery and a fast retransmit")
		if want < a.minCwnd {
			vassert(a.ssthresh == want && a.cwnd == a.minCwnd, "fast recovery: cwnd = ssthresh, not below the configured minimum")
			want = a.minCwnd
		} else {
			vassert(a.ssthresh == want && a.cwnd == want, "fast recovery: ssthresh = max(cwnd/2, 4*MTU), cwnd = ssthresh")
		}
		vassert(a.cwnd >= mtu, "the congestion window never falls below one MTU")
		// a further gap report in the same recovery does not cut again
		chunks[2].missIndicator = 2
		sack2 := &chunkSelectiveAck{cumulativeTSNAck: base, advertisedReceiverWindowCredit: 1 << 20, gapAckBlocks: []gapAckBlock{{2, 2}, {4, 4}}}
		vassert(vDeliver(a, sack2) == nil, "SACK ok")
		vassert(a.cwnd == want, "the window is cut once per recovery")
		// the recovery ends when the cumulative ack reaches or passes its exit point
		sack3 := &chunkSelectiveAck{cumulativeTSNAck: base + 4, advertisedReceiverWindowCredit: 1 << 20}
		vassert(vDeliver(a, sack3) == nil, "SACK ok")
		vassert(!a.inFastRecovery, "fast recovery ends once everything up to its exit point is acknowledged, also when the cumulative ack jumps past it")
		vcover("fast-recovery")
	case 2: // cumulative ack: growth only with pending data, bounded
		pending := vPick(2) == 1
		if pending {
			_, _ = s.WriteSCTP(make([]byte, 10), PayloadTypeWebRTCBinary)
		}
		ss := a.ssthresh
		sack := &chunkSelectiveAck{cumulativeTSNAck: base + 2, advertisedReceiverWindowCredit: 1 << 20}
		vassert(vDeliver(a, sack) == nil, "SACK ok")
		acked := uint32(20)
		if cwnd <= ss {
			if pending {
				vassert(a.cwnd == cwnd+acked || (acked > cwnd && a.cwnd == 2*cwnd), "slow start grows cwnd by min(bytes acked, cwnd)")
			} else {
				vassert(a.cwnd == cwnd, "cwnd does not grow when no data is waiting")
			}
		} else {
			vassert(a.cwnd == cwnd || a.cwnd == cwnd+mtu, "congestion avoidance grows cwnd by at most one MTU per SACK")
			if !pending {
				vassert(a.cwnd == cwnd, "cwnd does not grow when no data is waiting")
			}
		}
		vassert(a.cwnd >= mtu, "the congestion window never falls below one MTU")
		vcover("growth")
	}
}

// C10.L4: every packet that carries user data fits the MTU; larger messages are fragmented
// to the maximum payload size; nothing is lost or reordered by fragmentation and bundling.
func vh_C10_L4_mtu_bound() {
	il := vPick(2) == 1
	mtu := []uint32{36, 100, 1191}[vPick(3)]
	a, _ := vNewAssocOpts(vAssocOpts{interleaving: il, mtu: mtu})
	maxp := int(a.maxPayloadSize)
	vassert(maxp > 0 && maxp%4 == 0, "payload size positive and aligned")
	s, _ := a.OpenStream(1, PayloadTypeWebRTCBinary)
	nmsg := 1 + vPick(2)
	manySmall := vPick(2) == 1 // several small chunks bundled into one packet
	if manySmall {
		nmsg = 6
	}
	total := 0
	for i := 0; i < nmsg; i++ {
		size := 1
		if !manySmall {
			size = []int{1, maxp, maxp + 1, 2*maxp + 3}[vPick(4)]
		}
		_, werr := s.WriteSCTP(make([]byte, size), PayloadTypeWebRTCBinary)
		vassert(werr == nil, "write accepted")
		total += size
	}
	a.cwnd, a.rwnd = 1<<20, 1<<20
	got := 0
	next := a.myNextTSN
	for _, raw := range vWriterPass(a) {
		p := vDecode(raw)
		hasData := false
		for _, c := range p.chunks {
			if d, ok := c.(*chunkPayloadData); ok {
				hasData = true
				vassert(len(d.userData) <= maxp && len(d.userData) > 0, "fragments are at most the maximum payload size")
				vassert(d.tsn == next, "TSNs are consecutive in emission order")
				next++
				got += len(d.userData)
			}
		}
		if hasData {
			vassert(len(raw) <= int(mtu), "every packet that carries user data fits in the MTU")
		}
	}
	vassert(got == total, "all user bytes are emitted")
	vobserve("got", uint64(got))
	vcover("end")
}

// C10.L5: the peer's receive window is known from the first packet on: after either kind of
// establishment each side's rwnd is what the *peer* advertised (= C04.L1 snap / handshake).
func vh_C10_L5_initial_peer_window_snap()      { vh_C04_L1_snap_tokens() }
func vh_C10_L5_initial_peer_window_handshake() { vh_C04_L1_client_server() }

// C10.L6: the count of bytes in flight is exact. Three chunks in flight; a SACK gap-acks the
// second, a later SACK acknowledges the first two cumulatively (a chunk is first gap-acked,
// then covered by the cumulative ack): after each, the counter the admission of new data
// and the peer-window computation rely on equals the bytes of the chunks still outstanding.
func vh_C10_L6_inflight_bytes_exact() {
	vFlightSizes = []int{3, 5, 7}
	f := vInFlight(3, false)
	vFlightSizes = nil
	a := f.a
	vassert(a.inflightQueue.getNumBytes() == 15, "15 bytes in flight")
	vassert(vDeliver(a, &chunkSelectiveAck{cumulativeTSNAck: f.base, advertisedReceiverWindowCredit: 1 << 20, gapAckBlocks: []gapAckBlock{{2, 2}}}) == nil, "SACK ok")
	vassert(a.inflightQueue.getNumBytes() == 10, "a gap-acked chunk no longer counts as outstanding")
	vassert(vDeliver(a, &chunkSelectiveAck{cumulativeTSNAck: f.base + 2, advertisedReceiverWindowCredit: 1 << 20}) == nil, "SACK ok")
	vassert(a.inflightQueue.getNumBytes() == 7, "and is not subtracted a second time when the cumulative ack covers it")
	vassert(a.inflightQueue.size() == 1, "one chunk left")
	vassert(vDeliver(a, &chunkSelectiveAck{cumulativeTSNAck: f.base + 3, advertisedReceiverWindowCredit: 1 << 20}) == nil, "SACK ok")
	vassert(a.inflightQueue.getNumBytes() == 0 && a.inflightQueue.size() == 0, "nothing in flight at the end")
	vcover("end")
}

// C10.L7: a tail-loss-recovery episode ends. Two to three chunks are outstanding (TSN base
// symbolic: anywhere, also astride the 2^32 wrap); the probe timer fires (the episode
// begins and remembers the highest outstanding TSN); more data is sent; then a SACK
// acknowledges, cumulatively, up to some TSN: the episode is over exactly when everything
// that was outstanding at its start has been acknowledged, and from then on bursts are no
// longer capped by it.
func vh_C10_L7_tail_loss_recovery_ends() {
	k := 2 + vPick(2)
	f := vInFlight(k, true) // k chunks in flight and one message waiting
	a := f.a
	a.onPTOTimer()
	vassert(a.tlrActive, "the probe timer starts a recovery episode")
	end := f.base + uint32(k)
	_ = vWriterWake(a)      // the waiting message (and the probe) go out
	ackTo := 1 + vPick(k+1) // cumulative ack up to chunk 1..k+1
	vassert(vDeliver(a, &chunkSelectiveAck{cumulativeTSNAck: f.base + uint32(ackTo), advertisedReceiverWindowCredit: 1 << 20}) == nil, "SACK ok")
	if ackTo >= k {
		vassert(!a.tlrActive, "the episode ends once everything outstanding at its start is acknowledged, wherever the TSNs lie")
	} else {
		vassert(a.tlrActive && a.tlrEndTSN == end, "the episode lasts until then")
	}
	vcover("end")
}

// C10.L8: the initial congestion window, for every configured MTU: min(4 MTU, max(2 MTU,
// 4380 bytes)) (RFC 4960 7.2.1), computed from the MTU that was configured - in particular
// never below one MTU (a full-sized fragment always fits) and never above four.
func vh_C10_L8_initial_window_for_every_mtu() {
	m := nondetU32()
	vassume(m >= 100 && m <= 65535)
	cfg := &Config{NetConn: &vConn{}, LoggerFactory: vLoggerFactory{}, Name: "v", MTU: m}
	a := createAssociationFromConfigWithTsn(cfg, 5)
	vassert(a.MTU() == m, "the configured MTU is in force")
	want := 2 * m
	if want < 4380 {
		want = 4380
	}
	if want > 4*m {
		want = 4 * m
	}
	vassert(a.CWND() == want, "initial cwnd = min(4 MTU, max(2 MTU, 4380))")
	vassert(a.CWND() >= m && a.CWND() <= 4*m, "never below one MTU, never above four")
	vcover("end")
}
