//go:build verif

package sctp

// C10 — the sender honours congestion window, peer receive window and MTU.

// C10.L1: admission of new data. Pending chunks of symbolic-chosen sizes, arbitrary
// cwnd / rwnd / bytes already in flight: every chunk moved to flight respects
// cwnd and rwnd, except a single probe chunk when nothing was in flight.
func vh_C10_L1_admission() {
	a, _ := vNewAssoc()
	s, err := a.OpenStream(1, PayloadTypeWebRTCBinary)
	vassert(err == nil, "open stream")
	sizes := []int{1, 7, 1000}
	nmsg := 2
	if vtier() > 0 {
		nmsg = 3
	}
	for i := 0; i < nmsg; i++ {
		n, werr := s.WriteSCTP(make([]byte, sizes[vPick(len(sizes))]), PayloadTypeWebRTCBinary)
		vassert(werr == nil && n > 0, "write accepted")
	}
	// in-flight bytes already outstanding: one earlier chunk of symbolic-chosen size, or none
	inflightBefore := 0
	if vPick(2) == 1 {
		c := &chunkPayloadData{tsn: a.generateNextTSN(), userData: make([]byte, sizes[vPick(len(sizes))]), beginningFragment: true, endingFragment: true}
		a.inflightQueue.pushNoCheck(c)
		inflightBefore = len(c.userData)
	}
	cwnd, rwnd := nondetU32(), nondetU32()
	vassume(cwnd <= 1<<24 && rwnd <= 1<<24)
	a.cwnd = cwnd
	a.rwnd = rwnd
	pendingBefore := a.pendingQueue.size()
	nextTSN := a.myNextTSN
	budget, consumed := int64(0), false
	chunks, _ := a.popPendingDataChunksToSend(&budget, &consumed)
	sent := 0
	for i, c := range chunks {
		vassert(c.tsn == nextTSN+uint32(i), "TSNs are assigned consecutively in queue order")
		sent += len(c.userData)
	}
	vassert(a.pendingQueue.size() == pendingBefore-len(chunks), "chunks leave the pending queue")
	vassert(a.inflightQueue.getNumBytes() == inflightBefore+sent, "in-flight byte count grows by what was sent")
	probe := len(chunks) == 1 && inflightBefore == 0 && (uint32(sent) > cwnd || uint32(sent) > rwnd)
	if !probe {
		vassert(uint32(inflightBefore+sent) <= cwnd || sent == 0, "bytes in flight stay within the congestion window")
		vassert(uint32(sent) <= rwnd, "new data stays within the peer's advertised window")
		vassert(a.rwnd == rwnd-uint32(sent), "rwnd is reduced by exactly the bytes sent")
	} else {
		vassert(a.rwnd == rwnd, "the window probe does not touch rwnd")
	}
	if inflightBefore == 0 && pendingBefore > 0 {
		vassert(len(chunks) >= 1, "with nothing in flight at least one chunk (the probe) is always sent")
	}
	vobserve("sent", uint64(sent))
	vobserve("n", uint64(len(chunks)))
	vcover("end")
}
