//go:build verif

package sctp

// Two-party data-transfer obligations over real marshalled packets (serve C01, C02, C06, C07).

type vNet struct {
	a, b         *Association
	idx          int
	dropAt       int // index of the packet that is lost (-1: none)
	dropAt2      int // a second lost packet (0 or -1: none; packet 0 can only be lost through dropAt)
	dupAt        int // index of the packet that is delivered twice (-1: none)
	fwdSeen      bool
	dropFirstFwd bool // lose the first packet that carries a (I-)FORWARD-TSN
	fwdDropped   bool
	dups         map[int]bool // further duplicated positions (thorough tier)
	drops        map[int]bool // further lost positions (thorough tier)
}

// Oracles that hold in every two-party scenario, whatever it is about (checked on every
// packet that crosses the wire):
//   - SACK truth (C05): the cumulative ack of an emitted SACK covers, beyond the point the
//     receiver started from, only TSNs that were delivered to it or that a forward-TSN
//     delivered to it told it to skip, and its gap blocks name only TSNs delivered to it;
//   - window (C10): a writer pass that puts new data on the wire leaves the bytes in flight
//     within the congestion window, unless that data is the single chunk in flight.
type vSide struct {
	seen    map[uint32]bool // TSNs of DATA chunks delivered to this side
	start   uint32          // its cumulative point when the scenario began
	started bool
	skipTo  uint32 // highest new cumulative TSN of a forward-TSN delivered to it
	skipped bool
}

// vSides is filled by vInbound (every packet handed to an association, by a vNet or by a
// harness directly) and by vNoteChunk (chunks injected without a packet).
var vSides map[*Association]*vSide

func vSideOf(a *Association) *vSide {
	if vSides == nil {
		vSides = map[*Association]*vSide{}
	}
	sd := vSides[a]
	if sd == nil {
		sd = &vSide{seen: map[uint32]bool{}, start: a.peerLastTSN(), started: true}
		vSides[a] = sd
	}
	return sd
}

func (n *vNet) side(a *Association) *vSide { return vSideOf(a) }

func (n *vNet) checkSackTruth(x *Association, p *packet) {
	sd := n.side(x)
	for _, ch := range p.chunks {
		sack, ok := ch.(*chunkSelectiveAck)
		if !ok {
			continue
		}
		for t := sd.start + 1; sna32LTE(t, sack.cumulativeTSNAck) && t-sd.start <= 64; t++ {
			vassert(sd.seen[t] || (sd.skipped && sna32LTE(t, sd.skipTo)), "the cumulative ack of an emitted SACK covers only TSNs that were received or explicitly skipped")
		}
		for _, b := range sack.gapAckBlocks {
			for off := uint32(b.start); off <= uint32(b.end) && off-uint32(b.start) <= 64; off++ {
				vassert(sd.seen[sack.cumulativeTSNAck+off], "the gap blocks of an emitted SACK name only TSNs that were received")
			}
		}
	}
}

func vNoteDelivered(y *Association, chunks []chunk) {
	sd := vSideOf(y)
	for _, ch := range chunks {
		switch c := ch.(type) {
		case *chunkPayloadData:
			sd.seen[c.tsn] = true
		case *chunkForwardTSN:
			if !sd.skipped || sna32GT(c.newCumulativeTSN, sd.skipTo) {
				sd.skipTo, sd.skipped = c.newCumulativeTSN, true
			}
		case *chunkIForwardTSN:
			if !sd.skipped || sna32GT(c.newCumulativeTSN, sd.skipTo) {
				sd.skipTo, sd.skipped = c.newCumulativeTSN, true
			}
		}
	}
}

func (n *vNet) wire(x, y *Association) int {
	c := 0
	n.side(x)
	n.side(y)
	nextBefore, inflightBefore := x.myNextTSN, x.inflightQueue.size()
	// chunks that had been acknowledged or given up on before this writer pass
	var goneBefore []uint32
	for i := 0; i < x.inflightQueue.size(); i++ {
		if ch := x.inflightQueue.chunks.At(i); ch.acked || ch.abandoned() {
			goneBefore = append(goneBefore, ch.tsn)
		}
	}
	pkts := vWriterWake(x)
	if x.myNextTSN != nextBefore && !vIsShut(x) {
		// new data left in this pass
		newChunks := int(x.myNextTSN - nextBefore)
		vassert(uint32(x.inflightQueue.getNumBytes()) <= x.CWND() || (inflightBefore == 0 && newChunks == 1), "new data goes on the wire only while the bytes in flight stay within the congestion window (or as the single chunk in flight)")
	}
	for _, raw := range pkts {
		p := vDecode(raw)
		lostFwd := false
		if p != nil {
			n.checkSackTruth(x, p)
			for _, ch := range p.chunks {
				if d, ok := ch.(*chunkPayloadData); ok {
					for _, t := range goneBefore {
						vassert(d.tsn != t, "a chunk that was acknowledged or given up on is never put on the wire again")
					}
				}
			}
			for _, ch := range p.chunks {
				switch ch.(type) {
				case *chunkForwardTSN, *chunkIForwardTSN:
					n.fwdSeen = true
					if n.dropFirstFwd && !n.fwdDropped {
						n.fwdDropped, lostFwd = true, true
					}
				}
			}
		}
		if lostFwd {
			n.idx++
			c++
			continue
		}
		if n.idx != n.dropAt && (n.dropAt2 <= 0 || n.idx != n.dropAt2) && !n.drops[n.idx] {
			vInbound(y, raw)
			if n.idx == n.dupAt || n.dups[n.idx] {
				vInbound(y, raw)
			}
		}
		n.idx++
		c++
	}
	if !vIsShut(x) && x.inflightQueue.size() > 0 {
		vassert(x.t3RTX.isRunning(), "while data is outstanding the retransmission timer is running (nothing is ever left to no timer)")
	}
	return c
}

// settle pumps both directions until nothing moves; when quiescent it lets the armed
// timers expire, up to maxTimerRounds times.
func (n *vNet) settle(maxRounds, maxTimerRounds int) {
	timers := 0
	for r := 0; r < maxRounds; r++ {
		c := n.wire(n.a, n.b)
		vFireAck(n.b)
		c += n.wire(n.b, n.a)
		vFireAck(n.a)
		if c == 0 {
			if timers >= maxTimerRounds {
				return
			}
			timers++
			vFireAll(n.a)
			vFireAll(n.b)
		}
	}
}

// vThoroughFaults (thorough tier): instead of one fault, any combination of up to two lost
// packets and one duplicated packet among the first maxPos packets of the run.
func (n *vNet) vThoroughFaults(maxPos int) {
	n.dropAt, n.dropAt2, n.dupAt = -1, 0, -1
	n.drops, n.dups = map[int]bool{}, map[int]bool{}
	d1 := vPick(maxPos+1) - 1
	if d1 >= 0 {
		n.drops[d1] = true
		if d2 := vPick(maxPos-d1) - 1; d2 >= 0 {
			n.drops[d1+1+d2] = true
		}
	}
	if c := vPick(maxPos+1) - 1; c >= 0 {
		n.dups[c] = true
	}
}

// vReadAll reads, through the public ReadSCTP, every message that is readable now (a read
// that would have to wait is not started).
func vReadAll(s *Stream, buf []byte) (msgs [][]byte, ppis []PayloadProtocolIdentifier) {
	for s.reassemblyQueue.isReadable() {
		n, ppi, err := s.ReadSCTP(buf)
		if err != nil {
			return
		}
		msgs = append(msgs, append([]byte{}, buf[:n]...))
		ppis = append(ppis, ppi)
	}
	return
}

// C02.L1 / C01: reliable ordered transfer of 1..2 messages (1..2 fragments each, symbolic
// bytes) with any single packet lost or duplicated in either direction, DATA or I-DATA:
// after the network heals (timers may expire) every message is delivered exactly once,
// in order, intact, and the sender is drained.
func vh_C02_L1_reliable_transfer_one_fault() {
	il := vPick(2) == 1
	a, b := vPair(vAssocOpts{interleaving: il, mtu: 36, pickTSN: true})
	s, err := a.OpenStream(1, PayloadTypeWebRTCBinary)
	vassert(err == nil, "open stream")
	maxp := int(a.maxPayloadSize)
	maxMsgs := 2
	if vtier() > 0 {
		maxMsgs = 3
	}
	nmsg := 1 + vPick(maxMsgs)
	var want [][]byte
	for i := 0; i < nmsg; i++ {
		size := 1
		if vPick(2) == 1 {
			size = maxp + 1 // two fragments
		}
		m := make([]byte, size)
		m[0] = nondetU8()
		m[size-1] = nondetU8()
		want = append(want, append([]byte{}, m...))
		n, werr := s.WriteSCTP(m, PayloadTypeWebRTCString)
		vassert(werr == nil && n == size, "write accepted")
	}
	net := &vNet{a: a, b: b, dropAt: -1, dupAt: -1}
	if vtier() > 0 {
		net.vThoroughFaults(8)
	} else {
		switch vPick(4) {
		case 1:
			net.dropAt = vPick(8)
		case 2:
			net.dupAt = vPick(8)
		case 3: // two packets lost
			net.dropAt = vPick(5)
			net.dropAt2 = net.dropAt + 1 + vPick(4)
		}
	}
	net.settle(40, 8)
	bs := b.streams[1]
	vassert(bs != nil, "receiver has the stream")
	if bs == nil {
		return
	}
	got, ppis := vReadAll(bs, make([]byte, 64))
	vassert(len(got) == nmsg, "every message is delivered exactly once")
	for i := 0; i < len(got) && i < nmsg; i++ {
		vassert(vBytesEq(got[i], want[i]) && ppis[i] == PayloadTypeWebRTCString, "messages arrive in writing order, intact, with their PPI")
	}
	vassert(a.inflightQueue.size() == 0 && a.pendingQueue.size() == 0, "nothing stays outstanding")
	vassert(s.BufferedAmount() == 0 && a.BufferedAmount() == 0, "the sender reports zero buffered bytes")
	vassert(b.getMyReceiverWindowCredit() == b.maxReceiveBufferSize, "advertised window returns to the full buffer once everything is read")
	vassert(!a.willSendAbort && !b.willSendAbort, "no ABORT")
	vobserve("nmsg", uint64(nmsg))
	vcover("end")
}

// C07: an abandoned message never blocks or destroys anything else. One message on a
// rexmit-0 stream (ordered or unordered, 1..2 fragments) loses its first packet, is
// abandoned and skipped with FORWARD-TSN / I-FORWARD-TSN; a reliable ordered message
// written afterwards on the same stream must still be delivered, and nothing stays held.
func vh_C07_L1_abandoned_does_not_block() {
	il := vPick(2) == 1
	a, b := vPair(vAssocOpts{interleaving: il, mtu: 36, pickTSN: true})
	a.useForwardTSN, a.useIForwardTSN = !il, il
	b.useForwardTSN, b.useIForwardTSN = !il, il
	s, err := a.OpenStream(1, PayloadTypeWebRTCBinary)
	vassert(err == nil, "open stream")
	unorderedFirst := vPick(2) == 1
	s.SetReliabilityParams(unorderedFirst, ReliabilityTypeRexmit, 0)
	size := 1
	twoFrag := vPick(2) == 1
	if twoFrag {
		size = int(a.maxPayloadSize) + 1
	}
	_, werr := s.WriteSCTP(make([]byte, size), PayloadTypeWebRTCBinary)
	vassert(werr == nil, "write accepted")
	// the receiving application may or may not have configured its own side of the stream
	preOpened := vPick(2) == 1
	if preOpened {
		bsPre, _ := b.OpenStream(1, PayloadTypeWebRTCBinary)
		bsPre.SetReliabilityParams(unorderedFirst, ReliabilityTypeRexmit, 0)
	}
	net := &vNet{a: a, b: b, dupAt: -1}
	net.dropFirstFwd = vPick(2) == 1 // the FORWARD-TSN itself may be lost once
	// lose the packet carrying the last fragment (index 0 for one fragment, 1 for two)
	net.dropAt = 0
	if twoFrag {
		net.dropAt = 1
	}
	net.settle(16, 3)
	vassert(net.fwdSeen, "the peer is told to skip the abandoned message")
	vassert(a.inflightQueue.size() == 0, "the abandoned message leaves the sender's flight once skipped")
	// now a reliable ordered message on the same stream
	s.SetReliabilityParams(false, ReliabilityTypeReliable, 0)
	later := nondetBytes(1)
	_, werr = s.WriteSCTP(later, PayloadTypeWebRTCString)
	vassert(werr == nil, "later write accepted")
	net.dropAt = -1
	net.settle(16, 3)
	bs := b.streams[1]
	vassert(bs != nil, "receiver has the stream")
	if bs == nil {
		return
	}
	if !preOpened {
		announced := false
		for len(b.acceptCh) > 0 {
			if st := <-b.acceptCh; st == bs {
				announced = true
			}
		}
		vassert(announced, "the stream that carries the later message was announced to the accepting application")
	}
	got, ppis := vReadAll(bs, make([]byte, 64))
	vassert(len(got) == 1, "exactly the later message is delivered (the abandoned one is not, nothing else is lost)")
	if len(got) == 1 {
		vassert(vBytesEq(got[0], later) && ppis[0] == PayloadTypeWebRTCString, "the later reliable message is delivered intact")
	}
	vassert(bs.getNumBytesInReassemblyQueue() == 0, "no fragment of the abandoned message stays held")
	vassert(b.getMyReceiverWindowCredit() == b.maxReceiveBufferSize, "advertised window returns to the full buffer")
	vassert(s.BufferedAmount() == 0, "sender's buffered amount returns to zero (abandoned bytes count as released)")
	vassert(!a.willSendAbort && !b.willSendAbort, "no ABORT")
	vcover("end")
}

// C02.L2: zero-window episode. The receiver's buffer holds two bytes and its reader
// pauses until the window is zero; three one-byte messages (optionally one packet lost)
// are all delivered once the reader resumes, and the sender ends up drained: the window
// probe and T3 keep the association alive through the zero-window episode.
func vh_C02_L2_zero_window() {
	il := vPick(2) == 1
	mtu := []uint32{0, 36}[vPick(2)] // default (chunks are bundled) or one chunk per packet
	a, b := vPair(vAssocOpts{interleaving: il, pickTSN: true, recvBuf: 2, mtu: mtu})
	s, err := a.OpenStream(1, PayloadTypeWebRTCBinary)
	vassert(err == nil, "open stream")
	a.rwnd = 2 // what the peer advertised at the handshake
	var want []byte
	for i := 0; i < 3; i++ {
		m := nondetBytes(1)
		want = append(want, m[0])
		_, werr := s.WriteSCTP(m, PayloadTypeWebRTCString)
		vassert(werr == nil, "write accepted")
	}
	net := &vNet{a: a, b: b, dropAt: -1, dupAt: -1}
	if vtier() > 0 {
		net.vThoroughFaults(5)
	} else if vPick(2) == 1 {
		net.dropAt = vPick(4)
	}
	net.settle(12, 2) // the reader is paused
	bs := b.streams[1]
	vassert(bs != nil, "receiver has the stream")
	if bs == nil {
		return
	}
	vassert(bs.getNumBytesInReassemblyQueue() <= 3, "a bounded amount is held while the reader is paused")
	var got []byte
	buf := make([]byte, 4)
	for round := 0; round < 6 && len(got) < 3; round++ {
		for bs.reassemblyQueue.isReadable() {
			n, _, rerr := bs.ReadSCTP(buf)
			if rerr != nil {
				break
			}
			vassert(n == 1, "one-byte messages")
			got = append(got, buf[0])
		}
		net.settle(12, 3)
	}
	for bs.reassemblyQueue.isReadable() {
		n, _, rerr := bs.ReadSCTP(buf)
		if rerr != nil {
			break
		}
		_ = n
		got = append(got, buf[0])
	}
	vassert(len(got) == 3, "every message is delivered after the zero-window episode")
	for i := 0; i < len(got) && i < 3; i++ {
		vassert(got[i] == want[i], "in order and intact")
	}
	vassert(a.inflightQueue.size() == 0 && a.pendingQueue.size() == 0 && s.BufferedAmount() == 0, "the sender is drained")
	vassert(!a.willSendAbort && !b.willSendAbort, "no ABORT")
	vcover("end")
}

// C02.L2b: the zero-window probe for new data. The peer's window is smaller than the next
// chunk and nothing is in flight: exactly one chunk must still leave (the probe), whatever
// the MTU and however exactly the chunk fills the packet; afterwards the transfer completes.
func vh_C02_L2_zero_window_probe_any_packet_size() {
	il := vPick(2) == 1
	mtu := []uint32{1200, 1191, 1400, 36}[vPick(4)]
	a, b := vPair(vAssocOpts{interleaving: il, pickTSN: true, mtu: mtu})
	s, err := a.OpenStream(1, PayloadTypeWebRTCBinary)
	vassert(err == nil, "open stream")
	size := int(a.maxPayloadSize) - vPick(2) // a chunk that fills the packet exactly, or one byte less
	m := make([]byte, size)
	m[0], m[size-1] = nondetU8(), nondetU8()
	a.rwnd = uint32(vPick(2)) // 0 or 1: smaller than the chunk
	_, werr := s.WriteSCTP(m, PayloadTypeWebRTCString)
	vassert(werr == nil, "write accepted")
	pkts := vWriterWake(a)
	nData := 0
	for _, raw := range pkts {
		vassert(len(raw) <= int(mtu), "a packet never exceeds the MTU")
		if p := vDecode(raw); p != nil {
			for _, c := range p.chunks {
				if _, ok := c.(*chunkPayloadData); ok {
					nData++
				}
			}
		}
	}
	vassert(nData == 1, "with a closed peer window and nothing in flight one chunk is sent as the window probe")
	vassert(a.t3RTX.isRunning(), "and T3 runs for it")
	for _, raw := range pkts {
		vInbound(b, raw)
	}
	net := &vNet{a: a, b: b, dropAt: -1, dupAt: -1}
	net.settle(8, 2)
	bs := b.streams[1]
	vassert(bs != nil, "receiver has the stream")
	if bs != nil {
		got, _ := vReadAll(bs, make([]byte, 1500))
		vassert(len(got) == 1 && len(got[0]) == size && got[0][0] == m[0] && got[0][size-1] == m[size-1], "the probe delivers the message")
	}
	vassert(a.inflightQueue.size() == 0 && a.pendingQueue.size() == 0, "the sender is drained")
	vcover("end")
}

// C02.L3..L5: the progress mechanisms named by the property, as obligations of their own.
func vh_C02_L3_t3_retransmits_first_outstanding() { vh_C06_L2_abandoned_never_resent() }
func vh_C02_L4_gap_fill_at_zero_window()          { vh_C11_L2_credit_and_full_buffer() }

// C02.L6: a write that fails (blocking write past its deadline) leaves no hole in the
// stream's sequence space, so later messages stay deliverable (same obligation as C18.L2).
func vh_C02_L6_failed_write_leaves_no_hole() { vh_C18_L2_block_write_gate() }

// C02.L5: T3 never gives up: with every packet lost, each of 10 consecutive expiries puts
// the outstanding reliable chunk on the wire again and leaves the timer running.
func vh_C02_L5_t3_never_gives_up() {
	a, _ := vPair(vAssocOpts{pickTSN: true})
	s, err := a.OpenStream(1, PayloadTypeWebRTCBinary)
	vassert(err == nil, "open stream")
	_, werr := s.WriteSCTP(nondetBytes(2), PayloadTypeWebRTCBinary)
	vassert(werr == nil, "write accepted")
	first := a.myNextTSN
	onWire := 0
	for round := 0; round < 11; round++ {
		for _, raw := range vWriterWake(a) { // lost
			p := vDecode(raw)
			for _, c := range p.chunks {
				if d, ok := c.(*chunkPayloadData); ok && d.tsn == first {
					onWire++
				}
			}
		}
		vassert(a.t3RTX.isRunning(), "T3 is running while reliable data is outstanding")
		vassert(vFireRtx(a, a.t3RTX), "and expires")
	}
	vassert(onWire == 11, "every T3 expiry retransmits the outstanding chunk, for as long as the association lives")
	vassert(a.cwnd >= a.MTU(), "the congestion window never falls below one MTU")
	vcover("end")
}

// C02.L7: T3 runs whenever data is outstanding. Three chunks in flight with T3 running; then
// an acknowledgement arrives by either route — a SACK (symbolic cumulative ack within the
// flight, optional gap block) or a SHUTDOWN chunk carrying a cumulative ack — followed by
// the writer's pass: if anything is still in flight afterwards, T3 is running.
func vh_C02_L7_t3_runs_while_data_in_flight() {
	f := vInFlight(3, vPick(2) == 1)
	a := f.a
	a.t3RTX.start(a.rtoMgr.getRTO())
	adv := uint32(vPick(4)) // 0..3 chunks acknowledged cumulatively
	a.rwnd = 0              // and the peer's window stays closed: nothing new can leave
	if vPick(2) == 0 {
		var gaps []gapAckBlock
		if adv < 2 && vPick(2) == 1 {
			gaps = []gapAckBlock{{2, 2}}
		}
		vassert(vDeliver(a, &chunkSelectiveAck{cumulativeTSNAck: f.base + adv, advertisedReceiverWindowCredit: 0, gapAckBlocks: gaps}) == nil, "SACK ok")
	} else {
		vassert(vDeliver(a, &chunkShutdown{cumulativeTSNAck: f.base + adv}) == nil, "SHUTDOWN ok")
	}
	_ = vWriterWake(a)
	outstanding := 0
	for i := 0; i < a.inflightQueue.size(); i++ {
		if c := a.inflightQueue.chunks.At(i); !c.acked {
			outstanding++
		}
	}
	if outstanding > 0 {
		vassert(a.t3RTX.isRunning(), "T3 is running whenever unacknowledged data is in flight")
	}
	vobserve("out", uint64(outstanding))
	vcover("end")
}

// C02.L8: the retransmission machinery the progress argument rests on (obligations of C19 / C07).
func vh_C02_L8_backoff_capped_by_configured_rto_max() { vh_C19_L3_armed_duration() }
func vh_C02_L8_t3_survives_stop_expiry_races()        { vh_C19_L3_retry_law() }
func vh_C02_L8_skip_never_covers_reliable_data()      { vh_C07_L2_advance_only_over_abandoned() }

// C02.L9: obligations of other properties that C02's progress argument rests on: delayed-ack
// timer callbacks run without the timer mutex (= C19.L6), ordered reassembly across the SSN
// wrap (= C01.L5), the timer goroutine fires its callbacks with no lock held (= C20.L6).
func vh_C02_L9_ack_timer_callback_unlocked()   { vh_C19_L6_ack_timer_interleavings() }
func vh_C02_L9_ordered_reassembly_any_ssn()    { vh_C01_L5_ordered_reassembly() }
func vh_C02_L9_timer_loop_callbacks_unlocked() { vh_C20_L6_timer_loop_fires_callbacks_unlocked() }
func vh_C02_L9_skip_clears_exactly_its_range() { vh_C05_step_clear_range() }

// C02.L10: things that would stall an association for good although the network is fine: a
// stale handshake chunk that resets an established association (= C04.L2), a handshake timer
// left running after a simultaneous open (= C04.L1b), a lock taken against the hierarchy when
// a stream is closed (the wrappers of every lock assert the order; = C14.L5), a wake-up of
// the writer that is slept through (= C20.L10), a hand-over token lost by a failed blocking
// write (= C20.L9), a handshake result that is dropped (= C04.L7).
func vh_C02_L10_stale_handshake_chunks_do_not_reset_the_association() {
	vh_C04_L2_stale_chunks_ignored()
}
func vh_C02_L10_no_handshake_timer_left_after_simultaneous_open() { vh_C04_L1_simultaneous_open() }
func vh_C02_L10_stream_close_keeps_the_lock_order()               { vh_C14_L5_in_progress_keeps_request() }
func vh_C02_L10_writer_wake_up_is_not_slept_through() {
	vh_C20_L10_call_during_a_transport_write_is_served()
}
func vh_C02_L10_blocked_writers_are_not_left_behind() {
	vh_C20_L9_parked_write_fails_while_others_go_on()
}
func vh_C02_L10_handshake_result_is_not_dropped() {
	vh_C04_L7_handshake_result_waits_for_the_connect_call()
}

// C02.L11: the duplicate filter tracks exactly what was received, also across the 2^32 wrap
// (= C05 bmc_push): a receiver that loses track there stops the transfer for good.
func vh_C02_L11_duplicate_filter_exact_across_the_wrap() { vh_C05_bmc_push() }
