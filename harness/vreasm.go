//go:build verif

package sctp

// Shared helpers for reassembly-queue harnesses.

// vRQHeldBytes sums the user bytes reachable from every container of the queue.
func vRQHeldBytes(r *reassemblyQueue) int {
	n := 0
	for _, s := range r.ordered {
		for _, c := range s.chunks {
			n += len(c.userData)
		}
	}
	for _, s := range r.unordered {
		for _, c := range s.chunks {
			n += len(c.userData)
		}
	}
	for _, c := range r.unorderedChunks {
		n += len(c.userData)
	}
	for _, s := range r.orderedMID {
		for _, c := range s.chunks {
			n += len(c.userData)
		}
	}
	for _, s := range r.unorderedMID {
		for _, c := range s.chunks {
			n += len(c.userData)
		}
	}
	for _, s := range r.unorderedMIDMap {
		for _, c := range s.chunks {
			n += len(c.userData)
		}
	}
	return n
}

// vPermute returns the indices 0..n-1 in an order chosen by the engine (every order is explored).
func vPermute(n int) []int {
	rest := make([]int, n)
	for i := range rest {
		rest[i] = i
	}
	out := make([]int, 0, n)
	for len(rest) > 0 {
		k := vPick(len(rest))
		out = append(out, rest[k])
		rest = append(rest[:k], rest[k+1:]...)
	}
	return out
}

type vMsg struct {
	chunks []*chunkPayloadData
	bytes  []byte
	ppi    PayloadProtocolIdentifier
}

// vMakeMsg builds the fragments of one message the way packetize + TSN assignment do.
func vMakeMsg(si uint16, iData, unordered bool, ssn uint16, mid uint32, firstTSN uint32, nfrag int, ppi PayloadProtocolIdentifier) *vMsg {
	m := &vMsg{ppi: ppi}
	for f := 0; f < nfrag; f++ {
		b := nondetBytes(1)
		m.bytes = append(m.bytes, b[0])
		c := &chunkPayloadData{
			streamIdentifier: si, userData: b, unordered: unordered,
			beginningFragment: f == 0, endingFragment: f == nfrag-1,
			payloadType: ppi, streamSequenceNumber: ssn, messageIdentifier: mid,
			fragmentSequenceNumber: uint32(f), iData: iData, tsn: firstTSN + uint32(f),
		}
		if iData {
			c.streamSequenceNumber = uint16(mid)
			if f > 0 {
				c.payloadType = 0 // only the first I-DATA fragment carries the PPI on the wire
			}
		}
		m.chunks = append(m.chunks, c)
	}
	return m
}
