//go:build verif

package sctp

// C06 — unordered / partially reliable delivery: at most once, intact, policy-bounded.

// C06.L4: unordered reassembly. Two unordered messages whose fragments occupy
// adjacent TSNs (DATA) or distinct MIDs (I-DATA), every arrival order: each read
// returns exactly one of the written messages, whole, never a splice, each once.
func vh_C06_L4_unordered_reassembly() {
	iData := vPick(2) == 1
	r := newReassemblyQueue(3, 0)
	base := nondetU32()
	mid := nondetU32()
	nf0, nf1 := 1+vPick(2), 1+vPick(2)
	m0 := vMakeMsg(3, iData, true, 0, mid, base, nf0, PayloadTypeWebRTCString)
	m1 := vMakeMsg(3, iData, true, 0, mid+1, base+uint32(nf0), nf1, PayloadTypeWebRTCBinary)
	all := append(append([]*chunkPayloadData{}, m0.chunks...), m1.chunks...)
	for _, k := range vPermute(len(all)) {
		r.push(all[k])
	}
	buf := make([]byte, 8)
	seen0, seen1 := false, false
	for i := 0; i < 2; i++ {
		n, ppi, err := r.read(buf)
		vassert(err == nil, "both complete unordered messages are readable")
		if err != nil {
			return
		}
		is0 := n == nf0 && ppi == PayloadTypeWebRTCString && vBytesEq(buf[:n], m0.bytes)
		is1 := n == nf1 && ppi == PayloadTypeWebRTCBinary && vBytesEq(buf[:n], m1.bytes)
		vassert(is0 || is1, "a read returns one written message byte for byte with its PPI (no fragment, no splice)")
		if ppi == PayloadTypeWebRTCString {
			vassert(!seen0, "first message delivered at most once")
			seen0 = true
		} else {
			vassert(!seen1, "second message delivered at most once")
			seen1 = true
		}
	}
	_, _, err := r.read(buf)
	vassert(err != nil, "nothing is delivered twice")
	vassert(r.getNumBytes() == 0, "queue drained")
	vcover("end")
}
