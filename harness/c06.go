//go:build verif

package sctp

import "time"

// C06 — unordered / partially reliable delivery: at most once, intact, policy-bounded.

// C06.L4: unordered reassembly. Two unordered messages whose fragments occupy
// adjacent TSNs (DATA) or distinct MIDs (I-DATA), every arrival order: each read
// returns exactly one of the written messages, whole, never a splice, each once.
func vh_C06_L4_unordered_reassembly() {
	iData := vPick(2) == 1
	r := newReassemblyQueue(3, 0)
	base := nondetU32()
	mid := nondetU32()
	nf0, nf1 := 1+vPick(2), 1+vPick(2)
	m0 := vMakeMsg(3, iData, true, 0, mid, base, nf0, PayloadTypeWebRTCString)
	m1 := vMakeMsg(3, iData, true, 0, mid+1, base+uint32(nf0), nf1, PayloadTypeWebRTCBinary)
	all := append(append([]*chunkPayloadData{}, m0.chunks...), m1.chunks...)
	for _, k := range vPermute(len(all)) {
		r.push(all[k])
	}
	buf := make([]byte, 8)
	seen0, seen1 := false, false
	for i := 0; i < 2; i++ {
		n, ppi, err := r.read(buf)
		vassert(err == nil, "both complete unordered messages are readable")
		if err != nil {
			return
		}
		is0 := n == nf0 && ppi == PayloadTypeWebRTCString && vBytesEq(buf[:n], m0.bytes)
		is1 := n == nf1 && ppi == PayloadTypeWebRTCBinary && vBytesEq(buf[:n], m1.bytes)
		vassert(is0 || is1, "a read returns one written message byte for byte with its PPI (no fragment, no splice)")
		if ppi == PayloadTypeWebRTCString {
			vassert(!seen0, "first message delivered at most once")
			seen0 = true
		} else {
			vassert(!seen1, "second message delivered at most once")
			seen1 = true
		}
	}
	_, _, err := r.read(buf)
	vassert(err != nil, "nothing is delivered twice")
	vassert(r.getNumBytes() == 0, "queue drained")
	vcover("end")
}

// C06.L3: transmission-count law. A single-chunk message on a stream with retransmission
// limit N in {0,1,2,3} whose every transmission is lost: it is put on the wire at most
// N+1 times, then abandoned and never sent again, the peer is told to skip it, and a
// DCEP message on the same stream is never abandoned.
func vh_C06_L3_transmission_count() {
	il := vPick(2) == 1
	a, _ := vPair(vAssocOpts{interleaving: il, pickTSN: true})
	a.useForwardTSN, a.useIForwardTSN = !il, il
	s, err := a.OpenStream(1, PayloadTypeWebRTCBinary)
	vassert(err == nil, "open stream")
	limit := uint32(vPick(4))
	s.SetReliabilityParams(vPick(2) == 1, ReliabilityTypeRexmit, limit)
	dcep := vPick(2) == 1
	ppi := PayloadTypeWebRTCBinary
	if dcep {
		ppi = PayloadTypeWebRTCDCEP
	}
	_, werr := s.WriteSCTP(nondetBytes(2), ppi)
	vassert(werr == nil, "write accepted")
	first := a.myNextTSN
	onWire := 0
	fwd := false
	// which timers expire in each round: T3 only, the tail-loss probe (PTO) before T3, or
	// RACK and PTO only for the first rounds and T3 afterwards
	timers := vPick(3)
	for round := 0; round < 7; round++ {
		if timers == 1 || (timers == 2 && round < 3) {
			vFireRack(a)
			vFirePTO(a)
		}
		for _, raw := range vWriterWake(a) { // every packet is lost
			p := vDecode(raw)
			for _, c := range p.chunks {
				switch x := c.(type) {
				case *chunkPayloadData:
					if x.tsn == first {
						onWire++
						if dcep {
							vassert(!x.unordered, "DCEP messages are sent ordered")
						}
					}
				case *chunkForwardTSN, *chunkIForwardTSN:
					fwd = true
				}
			}
		}
		if timers != 2 || round >= 3 {
			vFireRtx(a, a.t3RTX)
		}
	}
	if dcep {
		vassert(onWire >= 4 && !fwd, "a DCEP message is retransmitted for as long as needed and never abandoned")
		if timers == 0 {
			vassert(onWire == 7, "once per T3 expiry")
		}
	} else {
		vassert(onWire >= 1 && onWire <= int(limit)+1, "a chunk is put on the wire at most N+1 times under retransmission limit N")
		vassert(fwd, "once the policy is exhausted the peer is told to skip the message")
	}
	vobserve("onWire", uint64(onWire))
	vcover("end")
}

// C06.L3d: the same law when the retransmissions come from different mechanisms. Four
// one-chunk messages, one per packet, on a stream with retransmission limit N in {1,2,3};
// every transmission of the first is lost, the others arrive one by one and are
// acknowledged at once, so the second transmission of the first is a fast retransmission
// (three gap reports) or a RACK retransmission and the later ones come from T3: on the wire
// at most N+1 times in total, then the peer is told to skip it and the other three are delivered.
func vh_C06_L3_transmission_count_fast_retransmit() {
	il := vPick(2) == 1
	a, b := vPair(vAssocOpts{interleaving: il, pickTSN: true, mtu: 36})
	a.useForwardTSN, a.useIForwardTSN = !il, il
	b.useForwardTSN, b.useIForwardTSN = !il, il
	s, err := a.OpenStream(1, PayloadTypeWebRTCBinary)
	vassert(err == nil, "open stream")
	limit := uint32(1 + vPick(3))
	s.SetReliabilityParams(true, ReliabilityTypeRexmit, limit)
	switch vPick(3) { // which mechanism notices the loss first
	case 1:
		a.rackReorderingSeen = true
	case 2: // reordering was seen and RACK's reordering window is wide open: the classic three gap reports do it
		a.rackReorderingSeen = true
		a.rackReoWnd = time.Second
	}
	rackTimers := vPick(2) == 1
	first := a.myNextTSN
	for i := 0; i < 4; i++ {
		_, werr := s.WriteSCTP([]byte{byte(i), 1}, PayloadTypeWebRTCBinary)
		vassert(werr == nil, "write accepted")
	}
	onWire := 0
	fwd := false
	for round := 0; round < 7; round++ {
		for _, raw := range vWriterWake(a) {
			p := vDecode(raw)
			lost := false
			for _, c := range p.chunks {
				switch x := c.(type) {
				case *chunkPayloadData:
					if x.tsn == first {
						onWire++
						lost = true
					}
				case *chunkForwardTSN, *chunkIForwardTSN:
					fwd = true
				}
			}
			if lost {
				continue
			}
			vInbound(b, raw)
			for _, back := range vWriterWake(b) { // out-of-order data is acknowledged at once
				vInbound(a, back)
			}
		}
		if vWriterPending(a) {
			continue // the acknowledgements woke the writer (fast retransmission): it runs before any timer
		}
		vFireAck(b)
		for _, back := range vWriterWake(b) {
			vInbound(a, back)
		}
		if vWriterPending(a) {
			continue
		}
		if rackTimers {
			vFireRack(a)
			vFirePTO(a)
		}
		if !vWriterPending(a) {
			vFireRtx(a, a.t3RTX)
		}
	}
	vassert(onWire >= 1 && onWire <= int(limit)+1, "a chunk is put on the wire at most N+1 times under retransmission limit N, whichever mechanism retransmits it")
	vassert(fwd, "once the policy is exhausted the peer is told to skip the message")
	vassert(a.inflightQueue.size() == 0, "everything else was delivered and acknowledged")
	vobserve("onWire", uint64(onWire))
	vcover("end")
}

// C06.L2: abandoned or acknowledged chunks are never selected for retransmission by a
// T3 expiry, whatever their counters say.
func vh_C06_L2_abandoned_never_resent() {
	vFlightSizes = []int{5, 2, 3} // the earliest chunk is larger than a small positive peer window
	f := vInFlight(3, false)
	vFlightSizes = nil
	a := f.a
	a.useForwardTSN = true
	var wasAbandoned, wasAcked [3]bool
	var sentBefore [3]uint32
	for i, c := range f.chunks {
		switch vPick(3) {
		case 1:
			c.setAbandoned(true)
			c.setAllInflight()
			wasAbandoned[i] = true
		case 2:
			a.inflightQueue.markAsAcked(c.tsn)
			wasAcked[i] = true
		}
		c.nSent = 1 + uint32(vPick(2))
		sentBefore[i] = c.nSent
	}
	a.t3RTX.start(1000)
	vassert(vFireRtx(a, a.t3RTX), "T3 expires")
	a.rwnd = nondetU32() // whatever the peer's window is
	pkts := vWriterWake(a)
	var resent [3]bool
	for _, raw := range pkts {
		p := vDecode(raw)
		for _, c := range p.chunks {
			if d, ok := c.(*chunkPayloadData); ok {
				for i := range f.chunks {
					if d.tsn == f.base+1+uint32(i) {
						resent[i] = true
					}
				}
			}
		}
	}
	for i, c := range f.chunks {
		if wasAbandoned[i] || wasAcked[i] {
			vassert(!resent[i] && c.nSent == sentBefore[i], "an abandoned or acknowledged chunk is never put on the wire again")
		}
	}
	if !wasAbandoned[0] && !wasAcked[0] {
		vassert(resent[0], "the earliest outstanding chunk is retransmitted after T3 even with a zero peer window")
	}
	vassert(a.t3RTX.isRunning(), "T3 never gives up")
	vcover("end")
}

// C06.L3b: the same law for a fragmented message only part of which fits the congestion
// window: fragments already on the wire are not retransmitted beyond the limit while the
// rest of the message is still waiting to be sent.
func vh_C06_L3_fragmented_partly_in_flight() {
	il := vPick(2) == 1
	a, _ := vPair(vAssocOpts{interleaving: il, pickTSN: true, mtu: 36})
	a.useForwardTSN, a.useIForwardTSN = !il, il
	s, err := a.OpenStream(1, PayloadTypeWebRTCBinary)
	vassert(err == nil, "open stream")
	limit := uint32(vPick(2))
	s.SetReliabilityParams(vPick(2) == 1, ReliabilityTypeRexmit, limit)
	maxp := int(a.maxPayloadSize)
	_, werr := s.WriteSCTP(make([]byte, 2*maxp+1), PayloadTypeWebRTCBinary) // three fragments
	vassert(werr == nil, "write accepted")
	a.cwnd = uint32(maxp) // one fragment at a time
	first := a.myNextTSN
	onWire := 0
	for round := 0; round < 5; round++ {
		for _, raw := range vWriterWake(a) { // every packet is lost
			p := vDecode(raw)
			for _, c := range p.chunks {
				if x, ok := c.(*chunkPayloadData); ok && x.tsn == first {
					onWire++
				}
			}
		}
		vFireRtx(a, a.t3RTX)
	}
	vassert(onWire <= int(limit)+1, "the first fragment is put on the wire at most N+1 times even while later fragments are still pending")
	vobserve("onWire", uint64(onWire))
	vcover("end")
}

// C06.L3c: three fragments, all in flight, the middle one lost: with limit N the message is
// abandoned as a whole, no fragment is put on the wire more than N+1 times.
func vh_C06_L3_three_fragments_all_in_flight() {
	il := vPick(2) == 1
	a, b := vPair(vAssocOpts{interleaving: il, pickTSN: true, mtu: 36})
	a.useForwardTSN, a.useIForwardTSN = !il, il
	b.useForwardTSN, b.useIForwardTSN = !il, il
	s, err := a.OpenStream(1, PayloadTypeWebRTCBinary)
	vassert(err == nil, "open stream")
	limit := uint32(vPick(2))
	s.SetReliabilityParams(vPick(2) == 1, ReliabilityTypeRexmit, limit)
	maxp := int(a.maxPayloadSize)
	_, werr := s.WriteSCTP(make([]byte, 2*maxp+1), PayloadTypeWebRTCBinary)
	vassert(werr == nil, "write accepted")
	first := a.myNextTSN
	var onWire [3]int
	lose := 1 + vPick(2) // the middle or the last fragment is always lost, the others arrive
	for round := 0; round < 6; round++ {
		for _, raw := range vWriterWake(a) {
			p := vDecode(raw)
			deliver := true
			for _, c := range p.chunks {
				if d, ok := c.(*chunkPayloadData); ok && d.tsn-first < 3 {
					onWire[d.tsn-first]++
					if int(d.tsn-first) == lose {
						deliver = false
					}
				}
			}
			if deliver {
				vInbound(b, raw)
			}
		}
		vFireAck(b)
		for _, raw := range vWriterWake(b) {
			vInbound(a, raw)
		}
		vFireRtx(a, a.t3RTX)
	}
	for i := 0; i < 3; i++ {
		vassert(onWire[i] >= 1 && onWire[i] <= int(limit)+1, "no fragment is put on the wire more than N+1 times")
	}
	vassert(a.inflightQueue.size() == 0, "the abandoned message is skipped as a whole")
	vcover("end")
}

// C06.L5: DCEP messages are ordered and reliable even on an unordered stream: two DCEP
// messages interleaved with unordered data are both delivered, in writing order.
func vh_C06_L5_dcep_ordered_on_unordered_stream() {
	il := vPick(2) == 1
	a, b := vPair(vAssocOpts{interleaving: il, pickTSN: true})
	s, err := a.OpenStream(1, PayloadTypeWebRTCBinary)
	vassert(err == nil, "open stream")
	s.SetReliabilityParams(true, ReliabilityTypeRexmit, 0)
	d1, d2 := nondetBytes(1), nondetBytes(1)
	_, _ = s.WriteSCTP(d1, PayloadTypeWebRTCDCEP)
	_, _ = s.WriteSCTP(nondetBytes(1), PayloadTypeWebRTCBinary)
	net := &vNet{a: a, b: b, dropAt: -1, dupAt: -1}
	net.settle(8, 1)
	bs := b.streams[1]
	vassert(bs != nil, "receiver has the stream")
	if bs == nil {
		return
	}
	got, ppis := vReadAll(bs, make([]byte, 8)) // the reader consumes what has arrived
	_, _ = s.WriteSCTP(d2, PayloadTypeWebRTCDCEP)
	net.settle(8, 1)
	got2, ppis2 := vReadAll(bs, make([]byte, 8))
	got, ppis = append(got, got2...), append(ppis, ppis2...)
	var dcep [][]byte
	for i := range got {
		if ppis[i] == PayloadTypeWebRTCDCEP {
			dcep = append(dcep, got[i])
		}
	}
	vassert(len(dcep) == 2, "both DCEP messages are delivered")
	if len(dcep) == 2 {
		vassert(dcep[0][0] == d1[0] && dcep[1][0] == d2[0], "in writing order, intact")
	}
	vcover("end")
}

// C06.L6: a skip must not destroy a live unordered message. Stream 1 (unordered, rexmit 0)
// sends a message that is lost; stream 2 (unordered, reliable) sends a two-fragment message
// whose second fragment is lost once. Any subset of the three data packets may be lost on
// first transmission; the reliable message is always delivered intact.
func vh_C06_L6_skip_keeps_live_unordered_message() {
	a, b := vPair(vAssocOpts{pickTSN: true, mtu: 36})
	a.useForwardTSN, b.useForwardTSN = true, true
	s1, _ := a.OpenStream(1, PayloadTypeWebRTCBinary)
	s2, _ := a.OpenStream(2, PayloadTypeWebRTCBinary)
	s1.SetReliabilityParams(true, ReliabilityTypeRexmit, 0)
	s2.SetReliabilityParams(true, ReliabilityTypeReliable, 0)
	_, _ = s1.WriteSCTP(nondetBytes(1), PayloadTypeWebRTCBinary)
	maxp := int(a.maxPayloadSize)
	m := make([]byte, maxp+1)
	m[0], m[maxp] = nondetU8(), nondetU8()
	_, _ = s2.WriteSCTP(m, PayloadTypeWebRTCString)
	mask := vPick(8) // which of the first three data packets are lost on their first transmission
	idx := 0
	for round := 0; round < 10; round++ {
		c := 0
		for _, raw := range vWriterWake(a) {
			p := vDecode(raw)
			isData := false
			for _, ch := range p.chunks {
				if _, ok := ch.(*chunkPayloadData); ok {
					isData = true
				}
			}
			drop := false
			if isData {
				if idx < 3 && mask&(1<<uint(idx)) != 0 {
					drop = true
				}
				idx++
			}
			if !drop {
				vInbound(b, raw)
			}
			c++
		}
		vFireAck(b)
		for _, raw := range vWriterWake(b) {
			vInbound(a, raw)
			c++
		}
		vFireAck(a)
		if c == 0 {
			if a.inflightQueue.size() == 0 {
				break
			}
			vFireAll(a)
		}
	}
	bs := b.streams[2]
	vassert(bs != nil, "receiver has the reliable stream")
	if bs != nil {
		got, _ := vReadAll(bs, make([]byte, 64))
		vassert(len(got) == 1 && vBytesEq(got[0], m), "the reliable unordered message is delivered intact whatever was skipped around it")
	}
	vassert(a.inflightQueue.size() == 0, "sender drained")
	vcover("end")
}

// C06.L7: lifetime-limited (timed) partial reliability. A single-chunk message on a stream
// with lifetime L ms is sent once; every transmission is lost; then time passes in steps
// (each longer than L) and T3 expires after each step. Once the lifetime has expired at
// most one further transmission of the message occurs, the message is then abandoned, the
// peer is told to skip it, and a DCEP message is never abandoned.
func vh_C06_L7_lifetime_limit() {
	il := vPick(2) == 1
	a, _ := vPair(vAssocOpts{interleaving: il, pickTSN: true})
	a.useForwardTSN, a.useIForwardTSN = !il, il
	s, err := a.OpenStream(1, PayloadTypeWebRTCBinary)
	vassert(err == nil, "open stream")
	lifetime := uint32([]int{0, 5, 20}[vPick(3)]) // ms
	s.SetReliabilityParams(vPick(2) == 1, ReliabilityTypeTimed, lifetime)
	dcep := vPick(2) == 1
	ppi := PayloadTypeWebRTCBinary
	if dcep {
		ppi = PayloadTypeWebRTCDCEP
	}
	_, werr := s.WriteSCTP(nondetBytes(2), ppi)
	vassert(werr == nil, "write accepted")
	first := a.myNextTSN
	onWire, afterExpiry := 0, 0
	fwd := false
	elapsed := time.Duration(0)
	for round := 0; round < 5; round++ {
		for _, raw := range vWriterWake(a) { // every packet is lost
			p := vDecode(raw)
			for _, c := range p.chunks {
				switch x := c.(type) {
				case *chunkPayloadData:
					if x.tsn == first {
						onWire++
						if elapsed > time.Duration(lifetime)*time.Millisecond {
							afterExpiry++
						}
					}
				case *chunkForwardTSN, *chunkIForwardTSN:
					fwd = true
				}
			}
		}
		vSleep(30 * time.Millisecond) // longer than every lifetime above
		elapsed += 30 * time.Millisecond
		vFireRtx(a, a.t3RTX)
	}
	if dcep {
		vassert(onWire == 5 && !fwd, "a DCEP message is retransmitted for as long as needed and never abandoned")
	} else {
		vassert(onWire >= 1, "the message is sent")
		vassert(afterExpiry <= 1, "once the lifetime has expired at most one further transmission of the message occurs")
		vassert(fwd, "once the lifetime has expired the peer is told to skip the message")
	}
	vobserve("onWire", uint64(onWire))
	vcover("end")
}

// C06.L8: obligations of other properties that C06's statement also rests on: the codec
// keeps the ordered and the unordered entry of one stream apart (= C07.L2b / C12.L1), and a
// failed write gives back exactly the number it consumed, none on an unordered stream (= C18.L2).
func vh_C06_L8_iforward_tsn_keeps_ordered_and_unordered_apart() {
	vh_C07_L2_iforward_tsn_ordered_and_unordered_entries()
}
func vh_C06_L8_failed_write_gives_back_its_number() { vh_C18_L2_block_write_gate() }

// C06.L9: never a fragment or a splice. A message of 3..4 fragments (DATA or I-DATA, ordered
// or unordered, symbolic TSN / SSN / MID bases) of which any single fragment is still
// missing (first, a middle one, last) is not readable and a read returns nothing; when
// the missing fragment arrives the message is delivered whole.
func vh_C06_L9_incomplete_message_is_never_delivered() {
	iData := vPick(2) == 1
	unordered := vPick(2) == 1
	r := newReassemblyQueue(3, 0)
	ssn, mid, base := nondetU16(), nondetU32(), nondetU32()
	r.nextSSN, r.nextMID = ssn, mid
	nf := 3 + vPick(2)
	m := vMakeMsg(3, iData, unordered, ssn, mid, base, nf, PayloadTypeWebRTCString)
	missing := vPick(nf)
	for i, c := range m.chunks {
		if i != missing {
			r.push(c)
		}
	}
	vassert(!r.isReadable(), "a message with a fragment missing is not readable")
	buf := make([]byte, 8)
	n, _, err := r.read(buf)
	vassert(err != nil && n == 0, "and a read returns nothing (never a truncated message)")
	vassert(r.getNumBytes() == nf-1, "the fragments received are kept")
	r.push(m.chunks[missing])
	vassert(r.isReadable(), "the message is readable once complete")
	n, ppi, err := r.read(buf)
	vassert(err == nil && n == nf && vBytesEq(buf[:n], m.bytes) && ppi == PayloadTypeWebRTCString, "and is delivered whole")
	vcover("end")
}
func vh_C06_L8_short_read_keeps_the_message()           { vh_C18_L3_short_buffer() }
func vh_C06_L8_forward_tsn_names_only_skipped_streams() { vh_C07_L2_advance_only_over_abandoned() }

// C06.L10: at most once needs a duplicate filter with a slot of its own for every TSN of the
// window it admits, for every receive-buffer size (= C01.L4b); and an ordered stream delivers
// in writing order also when a message arrives right after a skip left older complete
// messages waiting (= C07.L3b).
func vh_C06_L10_duplicate_filter_has_a_slot_per_tsn() { vh_C01_L4_tracking_window_capacity() }
func vh_C06_L10_order_kept_around_a_skip()            { vh_C07_L3_skip_covers_several_partial_messages() }

// C06.L11: a skip only purges what lies at or below it. On a stream's unordered queue
// (plain DATA) an abandoned message is partly held at or below the new cumulative TSN, and
// a live reliable message above it is held without its first fragment (lost, about to be
// retransmitted): the forward-TSN drops the former only; when the missing first fragment
// arrives the live message is delivered whole, once. TSN base symbolic.
func vh_C06_L11_skip_keeps_fragments_waiting_for_their_first() {
	r := newReassemblyQueue(3, 0)
	base := nondetU32()
	nLive := 2 + vPick(2)
	dead := vMakeMsg(3, false, true, 0, 0, base, 2, PayloadTypeWebRTCBinary)       // TSN base, base+1: abandoned
	live := vMakeMsg(3, false, true, 0, 0, base+2, nLive, PayloadTypeWebRTCString) // TSN base+2 .. : reliable, first fragment lost
	r.push(dead.chunks[vPick(2)])
	for i := 1; i < nLive; i++ {
		r.push(live.chunks[i])
	}
	held := r.getNumBytes()
	r.forwardTSNForUnordered(base + 1)
	vassert(r.getNumBytes() == held-1, "the skip drops the fragment of the abandoned message and nothing above the new cumulative TSN")
	vassert(!r.isReadable(), "nothing is readable yet")
	r.push(live.chunks[0]) // the retransmitted first fragment
	vassert(r.isReadable(), "the live message is complete")
	buf := make([]byte, 8)
	n, ppi, err := r.read(buf)
	vassert(err == nil && n == nLive && ppi == PayloadTypeWebRTCString, "and is delivered whole")
	for i := 0; i < nLive && i < n; i++ {
		vassert(buf[i] == live.bytes[i], "intact")
	}
	vassert(r.getNumBytes() == 0 && !r.isReadable(), "once")
	vcover("end")
}

// C06.L7b: the lifetime limit holds whichever mechanism retransmits. Four one-chunk messages,
// one per packet, on a stream with a lifetime of 20 ms; the first is lost, 30 ms pass, the
// others arrive and are acknowledged one by one, so the first is retransmitted by the fast
// retransmission (RACK's reordering window wide open) or by RACK, and lost again; T3 follows.
// After the lifetime has expired the message is put on the wire at most once more, then it
// is abandoned and the peer is told to skip it.
func vh_C06_L7_lifetime_limit_with_fast_retransmission() {
	il := vPick(2) == 1
	a, b := vPair(vAssocOpts{interleaving: il, pickTSN: true, mtu: 36})
	a.useForwardTSN, a.useIForwardTSN = !il, il
	b.useForwardTSN, b.useIForwardTSN = !il, il
	s, err := a.OpenStream(1, PayloadTypeWebRTCBinary)
	vassert(err == nil, "open stream")
	s.SetReliabilityParams(true, ReliabilityTypeTimed, 20)
	if vPick(2) == 1 {
		a.rackReorderingSeen = true
		a.rackReoWnd = time.Second
	}
	first := a.myNextTSN
	for i := 0; i < 4; i++ {
		_, werr := s.WriteSCTP([]byte{byte(i), 1}, PayloadTypeWebRTCBinary)
		vassert(werr == nil, "write accepted")
	}
	afterExpiry := 0
	fwd := false
	expired := false
	for round := 0; round < 7; round++ {
		for _, raw := range vWriterWake(a) {
			p := vDecode(raw)
			lost := false
			for _, c := range p.chunks {
				switch x := c.(type) {
				case *chunkPayloadData:
					if x.tsn == first {
						lost = true
						if expired {
							afterExpiry++
						}
					}
				case *chunkForwardTSN, *chunkIForwardTSN:
					fwd = true
				}
			}
			if lost {
				continue
			}
			if !expired {
				vSleep(30 * time.Millisecond) // the lifetime of the first message passes before anything is acknowledged
				expired = true
			}
			vInbound(b, raw)
			for _, back := range vWriterWake(b) {
				vInbound(a, back)
			}
		}
		if vWriterPending(a) {
			continue
		}
		vFireAck(b)
		for _, back := range vWriterWake(b) {
			vInbound(a, back)
		}
		if !vWriterPending(a) {
			vFireRtx(a, a.t3RTX)
		}
	}
	vassert(afterExpiry <= 1, "once the lifetime has expired at most one further transmission of the message occurs, whichever mechanism retransmits")
	vassert(fwd, "and the peer is told to skip it")
	vassert(a.inflightQueue.size() == 0, "everything else was delivered and acknowledged")
	vcover("end")
}

// C06.L12: a skip clears exactly its range of the duplicate filter (= C05.S1): nothing that
// was skipped stays marked (it would make a later TSN look like a duplicate).
func vh_C06_L12_skip_clears_exactly_its_range() { vh_C05_step_clear_range() }
