//go:build verif

package sctp

import (
	"encoding/json"
	"fmt"
	"os"
	"testing"
	"time"
)

type vCase struct {
	Harness  string      `json:"harness"`
	Vector   []vVecEntry `json:"vector"`
	Realtime bool        `json:"realtime"`
	Tier     int         `json:"tier"`
	Hang     bool        `json:"hang"`
	Skip     bool        `json:"skip"`
	Race     bool        `json:"race"`
	Shared   bool        `json:"shared"`
}

type vOut struct {
	Idx     int       `json:"idx"`
	Outcome string    `json:"outcome"`
	Msg     string    `json:"msg"`
	Obs     []vObsVal `json:"obs"`
	Covers  []string  `json:"covers"`
}

func vRunCase(c vCase) (out vOut) {
	h, ok := vHarnesses[c.Harness]
	if !ok {
		return vOut{Outcome: "error", Msg: "unknown harness " + c.Harness}
	}
	vVec, vPos, vObs, vCovers = c.Vector, 0, nil, nil
	vRealtime = c.Realtime
	vTier = c.Tier
	vHeldRanks, vMainGoid, vNoBlockMsg, vSpawned = nil, vGoid(), "", nil
	vGoLive, vPreemptBody, vPreemptIgnoreRank, vSides = false, nil, -1, nil
	vOtherMu.Lock()
	vOtherRanks, vAsyncMsg = map[uint64]*[]int{}, ""
	vOtherMu.Unlock()
	vRaceMode, vRaceShared, vRaceStop = c.Race, c.Shared, make(chan struct{})
	defer func() {
		if vRaceMode {
			time.Sleep(100 * time.Millisecond) // let the touchers meet the last accesses of the path
		}
		close(vRaceStop)
	}()
	defer func() {
		out.Obs, out.Covers = vObs, vCovers
		if r := recover(); r != nil {
			switch x := r.(type) {
			case vAssumeFail:
				out.Outcome = "assume"
			case vAssertFail:
				out.Outcome, out.Msg = "assert", x.msg
			case vExhausted:
				out.Outcome = "exhausted"
			case vBlocked:
				out.Outcome = "ok"
			default:
				out.Outcome, out.Msg = "panic", fmt.Sprint(r)
			}
		}
	}()
	h()
	out.Outcome = "ok"
	vOtherMu.Lock()
	if vAsyncMsg != "" {
		out.Outcome, out.Msg = "assert", vAsyncMsg
	}
	vOtherMu.Unlock()
	return out
}

func TestVerifReplay(t *testing.T) {
	path := os.Getenv("VERIF_CASES")
	if path == "" {
		t.Skip("no VERIF_CASES")
	}
	b, err := os.ReadFile(path)
	if err != nil {
		t.Fatal(err)
	}
	var cases []vCase
	if err := json.Unmarshal(b, &cases); err != nil {
		t.Fatal(err)
	}
	f, err := os.Create(os.Getenv("VERIF_OUT"))
	if err != nil {
		t.Fatal(err)
	}
	defer f.Close()
	for i, c := range cases {
		if c.Skip {
			continue
		}
		// every case runs under a watchdog: a harness that never returns is reported as
		// "hang" (expected only for counterexamples of the must-not-block obligations);
		// nothing else runs in this process afterwards
		limit := 120 * time.Second
		if c.Hang {
			limit = 5 * time.Second
		}
		done := make(chan vOut, 1)
		go func() { done <- vRunCase(c) }()
		var o vOut
		hung := false
		select {
		case o = <-done:
		case <-time.After(limit):
			o, hung = vOut{Outcome: "hang", Msg: vNoBlockMsg}, true
		}
		o.Idx = i
		line, _ := json.Marshal(o)
		f.Write(append(line, '\n'))
		if hung {
			break
		}
	}
}
