//go:build verif

package sctp

import (
	"errors"
	"io"
	"time"
)

// C14 — stream close is ordered after the stream's data; identifiers can be reused.

// C14.L1-L4 (two-party): the writer sends 1..2 messages and closes the stream; any one
// packet (DATA, SACK, RECONFIG request or response) may be lost; the reader gets every
// message and only then end-of-file; after the other direction is reset too the
// identifier is reopened and the new incarnation starts with fresh sequence numbers.
func vh_C14_L1_close_after_data_and_reuse() {
	il := vPick(2) == 1
	a, b := vPair(vAssocOpts{interleaving: il, pickTSN: true})
	// the reset request gets the last sequence number before the 32-bit wrap, the one before
	// it, or whatever the initial TSN gives
	a.myNextRSN = []uint32{0xffffffff, 0xfffffffe, a.myNextRSN}[vPick(3)]
	s, err := a.OpenStream(1, PayloadTypeWebRTCBinary)
	vassert(err == nil, "open stream")
	unordered := vPick(2) == 1
	s.SetReliabilityParams(unordered, ReliabilityTypeReliable, 0)
	nmsg := 1 + vPick(2)
	var want [][]byte
	for i := 0; i < nmsg; i++ {
		m := nondetBytes(1)
		want = append(want, m)
		_, werr := s.WriteSCTP(m, PayloadTypeWebRTCString)
		vassert(werr == nil, "write accepted")
	}
	if !unordered && vPick(2) == 1 {
		s.SetReliabilityParams(true, ReliabilityTypeReliable, 0) // the stream is switched to unordered after the ordered writes
	}
	vassert(s.Close() == nil, "close accepted")
	_, werr := s.WriteSCTP([]byte{1}, PayloadTypeWebRTCString)
	vassert(werr != nil, "write after close is rejected")
	if vPick(2) == 1 {
		a.cwnd = 1 // congestion-limited: one chunk per round trip, data is still pending when the marker is reached
	}
	net := &vNet{a: a, b: b, dropAt: -1, dupAt: -1}
	if vtier() > 0 {
		net.vThoroughFaults(6)
	} else if vPick(2) == 1 {
		net.dropAt = vPick(6)
	}
	// pump in small steps so the ordering of reset versus data can be observed
	var bs *Stream
	for step := 0; step < 30; step++ {
		c := net.wire(a, b)
		vFireAck(b)
		if bs == nil && len(b.acceptCh) > 0 {
			bs = <-b.acceptCh // the application accepts the inbound stream
		}
		if bs != nil && bs.readErr != nil {
			// the reset has been performed: every message must already be there
			vassert(bs.readErr == io.EOF, "the reader is told end-of-file")
			vassert(bs.getNumBytesInReassemblyQueue() == nmsg, "end-of-file is signalled only after all data of the stream has arrived")
		}
		c += net.wire(b, a)
		vFireAck(a)
		if c == 0 {
			if len(a.reconfigs) == 0 && a.inflightQueue.size() == 0 && a.pendingQueue.size() == 0 {
				break
			}
			vFireAll(a)
			vFireAll(b)
		}
	}
	vassert(bs != nil, "receiver got the stream")
	if bs == nil {
		return
	}
	vassert(bs.readErr == io.EOF, "the reset reaches the reader despite the loss")
	buf := make([]byte, 8)
	if unordered {
		got, _ := vReadAll(bs, buf)
		vassert(len(got) == nmsg, "all messages written before the close stay readable after the reset")
	} else {
		for i := 0; i < nmsg; i++ {
			n, _, rerr := bs.ReadSCTP(buf)
			vassert(rerr == nil && n == 1 && buf[0] == want[i][0], "messages written before the close are read first, in order")
		}
	}
	n, _, rerr := bs.ReadSCTP(buf)
	vassert(n == 0 && rerr == io.EOF, "then end-of-file")
	vassert(len(a.reconfigs) == 0 && !a.tReconfig.isRunning(), "the reset request is answered and no longer retransmitted")
	vassert(s.sequenceNumber == 0 && s.nextOrderedMID == 0 && s.nextUnorderedMID == 0, "outgoing sequence numbers are reset")
	_, present := b.streams[1]
	vassert(!present, "the receiver forgets the stream")
	// the other direction is reset too
	bw, berr := b.OpenStream(1, PayloadTypeWebRTCBinary)
	vassert(berr == nil, "reopen on the receiver for its own direction")
	vassert(bw.Close() == nil, "close the other direction")
	net.dropAt, net.drops, net.dups = -1, nil, nil
	net.settle(12, 2)
	_, present = a.streams[1]
	vassert(!present, "after both directions are reset the original stream is gone on the first side too")
	// reuse of the identifier
	s2, oerr := a.OpenStream(1, PayloadTypeWebRTCBinary)
	vassert(oerr == nil && s2 != s, "the identifier can be opened again")
	vassert(s2.sequenceNumber == 0 && s2.nextOrderedMID == 0, "the new incarnation starts with fresh sequence numbers")
	if vPick(2) == 1 {
		s2.SetReliabilityParams(true, ReliabilityTypeReliable, 0) // the new incarnation may be used unordered from the start
	}
	again := nondetBytes(1)
	_, werr = s2.WriteSCTP(again, PayloadTypeWebRTCString)
	vassert(werr == nil, "write on the new incarnation")
	net.settle(12, 2)
	bs2 := b.streams[1]
	vassert(bs2 != nil && bs2 != bs, "the peer serves the new incarnation on a fresh stream object")
	if bs2 != nil {
		got, _ := vReadAll(bs2, buf)
		vassert(len(got) == 1 && got[0][0] == again[0], "messages of the new incarnation are delivered normally")
	}
	vcover("end")
}

// C14.L2: the receiver defers a reset until its cumulative TSN reaches the sender's last TSN.
func vh_C14_L2_deferred_reset() {
	a, _ := vNewAssoc()
	cum := a.peerLastTSN()
	// a stream with one message held
	vassert(vDeliver(a, vDataChunk(a, cum+1, 4, false, 1)) == nil, "DATA ok")
	cum = a.peerLastTSN()
	last := nondetU32()
	vassume(last-cum != 1<<31 && last-cum < 1<<30 || cum-last < 1<<30)
	// the request may name further streams the receiver has never seen (opened by the peer but
	// never written on), before or after the one it knows
	ids := [][]uint16{{4}, {9, 4}, {4, 9}, {9, 4, 11}}[vPick(4)]
	req := &paramOutgoingResetRequest{reconfigRequestSequenceNumber: nondetU32(), senderLastTSN: last, streamIdentifiers: ids}
	s4 := a.streams[4]
	if vPick(2) == 1 {
		s4.lock.Lock()
		s4.readErr = ErrReadDeadlineExceeded // the reader's last read timed out and it has not re-armed its deadline yet
		s4.lock.Unlock()
	}
	nReaders := 1 + vPick(2)
	vCondPark(s4.readNotifier, nReaders) // readers blocked on the stream when the reset arrives
	vassert(vDeliver(a, &chunkReconfig{paramA: req}) == nil, "RECONFIG is never fatal")
	due := !vBefore(cum, last) // senderLastTSN <= cumulative TSN (serially)
	_, still := a.streams[4]
	vassert(still == !due, "the reset is performed exactly when every TSN up to the sender's last TSN has arrived")
	if due {
		vassert(s4.readErr == io.EOF, "the reader gets end-of-file")
		vassert(vCondParked(s4.readNotifier) == 0, "every reader blocked on the stream is woken by the reset")
		vassert(len(a.reconfigRequests) == 0, "a performed request is forgotten")
	} else {
		vassert(s4.readErr != io.EOF, "no end-of-file before the data")
		vassert(len(a.reconfigRequests) == 1, "the request is kept for later")
	}
	// the response goes out
	pkts := vWriterWake(a)
	found := false
	for _, raw := range pkts {
		p := vDecode(raw)
		for _, c := range p.chunks {
			if rc, ok := c.(*chunkReconfig); ok {
				if resp, ok := rc.paramA.(*paramReconfigResponse); ok {
					found = true
					vassert(resp.reconfigResponseSequenceNumber == req.reconfigRequestSequenceNumber, "the response names the request")
					if due {
						vassert(resp.result == reconfigResultSuccessPerformed, "performed")
					} else {
						vassert(resp.result == reconfigResultInProgress, "in progress")
					}
				}
			}
		}
	}
	vassert(found, "a reconfiguration response is sent")
	// buffered data stays readable after the reset
	if due {
		n, _, rerr := s4.ReadSCTP(make([]byte, 4))
		vassert(rerr == nil && n == 1, "a message received before the reset is served before the read error")
		_, _, rerr = s4.ReadSCTP(make([]byte, 4))
		vassert(rerr == io.EOF, "then end-of-file")
	}
	vcover("end")
}

// C14.L3: two streams closed in separate rounds, the second reset request lost: the
// answer to the first request must not stop the retransmission of the second.
func vh_C14_L3_two_resets_one_lost() {
	a, b := vPair(vAssocOpts{pickTSN: true})
	s1, _ := a.OpenStream(1, PayloadTypeWebRTCBinary)
	s2, _ := a.OpenStream(2, PayloadTypeWebRTCBinary)
	_, _ = s1.WriteSCTP(nondetBytes(1), PayloadTypeWebRTCString)
	_, _ = s2.WriteSCTP(nondetBytes(1), PayloadTypeWebRTCString)
	vassert(s1.Close() == nil, "close stream 1")
	net := &vNet{a: a, b: b, dropAt: -1, dupAt: -1}
	net.wire(a, b) // data of both streams and the first reset request reach the peer
	vFireAck(b)
	vassert(s2.Close() == nil, "close stream 2")
	// the second request is lost
	for _, raw := range vWriterWake(a) {
		_ = raw
	}
	// the peer's answers (SACK, response to the first request) arrive
	net.wire(b, a)
	vFireAck(a)
	vassert(len(a.reconfigs) >= 1, "the second request is still unanswered")
	vassert(a.tReconfig.isRunning(), "so its retransmission timer keeps running")
	net.settle(16, 3)
	vassert(len(a.reconfigs) == 0, "every reset request is eventually answered")
	_, p1 := b.streams[1]
	_, p2 := b.streams[2]
	vassert(!p1 && !p2, "both streams are reset at the peer")
	vcover("end")
}

// C14.L2b: a deferred reset is performed when the request is received again after the
// cumulative TSN has caught up through a forward-TSN (which ends without a pop).
func vh_C14_L2_deferred_reset_reevaluated() {
	a, _ := vNewAssoc()
	a.useForwardTSN = true
	cum := a.peerLastTSN()
	vassert(vDeliver(a, vDataChunk(a, cum+1, 4, false, 1)) == nil, "DATA ok")
	cum = a.peerLastTSN()
	s4 := a.streams[4]
	req := &paramOutgoingResetRequest{reconfigRequestSequenceNumber: nondetU32(), senderLastTSN: cum + 2, streamIdentifiers: []uint16{4}}
	vassert(vDeliver(a, &chunkReconfig{paramA: req}) == nil, "RECONFIG ok")
	vassert(s4.readErr == nil && len(a.reconfigRequests) == 1, "deferred: the data up to the sender's last TSN has not arrived")
	// the missing TSNs are skipped by the sender
	vassert(vDeliver(a, &chunkForwardTSN{newCumulativeTSN: cum + 2}) == nil, "FORWARD-TSN ok")
	vassert(a.peerLastTSN() == cum+2, "cumulative TSN caught up")
	// the sender's reconfig timer retransmits the request
	vassert(vDeliver(a, &chunkReconfig{paramA: req}) == nil, "RECONFIG ok")
	vassert(s4.readErr == io.EOF, "the retransmitted request is re-evaluated and the reset performed")
	_, still := a.streams[4]
	vassert(!still && len(a.reconfigRequests) == 0, "stream removed, request forgotten")
	vcover("end")
}

// C14.L4: end-of-file signalled by a stream reset is final for readers: a read deadline
// passing later does not replace it (same obligation as C18.L4).
func vh_C14_L4_eof_is_final() { vh_C18_L4_read_deadline() }

// C14.L5: an "in progress" answer is not a final answer. A sender with an outstanding reset
// request receives a response saying "in progress": the request stays pending and the
// reconfig timer keeps running, so the request is repeated until the peer has performed it.
func vh_C14_L5_in_progress_keeps_request() {
	a, _ := vNewAssoc()
	s, err := a.OpenStream(1, PayloadTypeWebRTCBinary)
	vassert(err == nil, "open stream")
	vassert(s.Close() == nil, "close")
	a.cwnd, a.rwnd = 1<<20, 1<<20
	_ = vWriterWake(a)
	vassert(len(a.reconfigs) == 1 && a.tReconfig.isRunning(), "the reset request is outstanding and timed")
	var rsn uint32
	for k := range a.reconfigs {
		rsn = k
	}
	resp := &paramReconfigResponse{reconfigResponseSequenceNumber: rsn, result: reconfigResultInProgress}
	vassert(vDeliver(a, &chunkReconfig{paramA: resp}) == nil, "RECONFIG is never fatal")
	vassert(len(a.reconfigs) == 1, "an in-progress answer leaves the request pending")
	vassert(a.tReconfig.isRunning(), "and the reconfig timer running")
	vassert(vFireRtx(a, a.tReconfig), "the timer expires")
	again := false
	for _, raw := range vWriterWake(a) {
		if p := vDecode(raw); p != nil {
			for _, c := range p.chunks {
				if rc, ok := c.(*chunkReconfig); ok {
					if rq, ok := rc.paramA.(*paramOutgoingResetRequest); ok && rq.reconfigRequestSequenceNumber == rsn {
						again = true
					}
				}
			}
		}
	}
	vassert(again, "the request is sent again")
	// the final answer ends it
	done := &paramReconfigResponse{reconfigResponseSequenceNumber: rsn, result: reconfigResultSuccessPerformed}
	vassert(vDeliver(a, &chunkReconfig{paramA: done}) == nil, "RECONFIG is never fatal")
	vassert(len(a.reconfigs) == 0 && !a.tReconfig.isRunning(), "a final answer ends the request")
	vcover("end")
}

// C14.L6: every closed stream gets its reset request. A first request is still unanswered and
// its timer has just expired (the retransmission is due) when a second stream is closed:
// the writer's round retransmits the old request and also builds the request for the second
// stream; nothing is dropped.
func vh_C14_L6_reset_request_built_alongside_a_retransmission() {
	a, _ := vNewAssoc()
	s1, _ := a.OpenStream(1, PayloadTypeWebRTCBinary)
	s2, _ := a.OpenStream(2, PayloadTypeWebRTCBinary)
	a.cwnd, a.rwnd = 1<<20, 1<<20
	vassert(s1.Close() == nil, "close 1")
	_ = vWriterWake(a) // request for stream 1 goes out (and is lost)
	vassert(len(a.reconfigs) == 1 && a.tReconfig.isRunning(), "one request outstanding")
	vassert(s2.Close() == nil, "close 2")
	vassert(vFireRtx(a, a.tReconfig), "the reconfig timer expires in the same round")
	named := map[uint16]bool{}
	for _, raw := range vWriterWake(a) {
		if p := vDecode(raw); p != nil {
			for _, c := range p.chunks {
				if rc, ok := c.(*chunkReconfig); ok {
					if rq, ok := rc.paramA.(*paramOutgoingResetRequest); ok {
						for _, id := range rq.streamIdentifiers {
							named[id] = true
						}
					}
				}
			}
		}
	}
	_ = vWriterWake(a)
	vassert(named[1], "the unanswered request is retransmitted")
	vassert(named[2] || len(a.reconfigs) == 2, "and the second stream's request is built too")
	vassert(len(a.reconfigs) == 2, "both requests are outstanding afterwards")
	vcover("end")
}

// C14.L7: an unanswered reset request is repeated for as long as the association lives: over
// twelve consecutive expiries of the reconfig timer (every copy lost) the request goes out
// again each time and the timer keeps running.
func vh_C14_L7_reset_request_repeated_for_ever() {
	a, _ := vNewAssoc()
	s, _ := a.OpenStream(1, PayloadTypeWebRTCBinary)
	a.cwnd, a.rwnd = 1<<20, 1<<20
	vassert(s.Close() == nil, "close")
	_ = vWriterWake(a)
	for i := 0; i < 12; i++ {
		vassert(vFireRtx(a, a.tReconfig), "the reconfig timer is running and expires")
		again := false
		for _, raw := range vWriterWake(a) {
			if p := vDecode(raw); p != nil {
				for _, c := range p.chunks {
					if _, ok := c.(*chunkReconfig); ok {
						again = true
					}
				}
			}
		}
		vassert(again, "the request is sent again after every expiry")
	}
	vassert(a.tReconfig.isRunning() && len(a.reconfigs) == 1, "and is still pending and timed")
	vcover("end")
}

// C14.L8: closing a stream resets it whatever its read side has been through. The reader's
// last read timed out (the deadline error is still stored), or nothing was ever read; the
// application closes the stream: the outgoing reset request is built and sent, so the peer's
// reader gets end-of-file and the identifier can be used again.
func vh_C14_L8_close_after_a_timed_out_read_still_resets() {
	a, _ := vNewAssoc()
	s, err := a.OpenStream(1, PayloadTypeWebRTCBinary)
	vassert(err == nil, "open stream")
	if vPick(2) == 1 {
		vassert(s.SetReadDeadline(time.Now().Add(-time.Second)) == nil, "a deadline that has passed")
		vRunSpawned()
		_, _, rerr := s.ReadSCTP(make([]byte, 4))
		vassert(errors.Is(rerr, ErrReadDeadlineExceeded), "the read times out")
	}
	vassert(s.Close() == nil, "close accepted")
	a.cwnd, a.rwnd = 1<<20, 1<<20
	found := false
	for _, raw := range vWriterWake(a) {
		for _, c := range vDecode(raw).chunks {
			if rc, ok := c.(*chunkReconfig); ok {
				if rq, ok := rc.paramA.(*paramOutgoingResetRequest); ok && len(rq.streamIdentifiers) == 1 && rq.streamIdentifiers[0] == 1 {
					found = true
				}
			}
		}
	}
	vassert(found, "the reset request for the closed stream goes on the wire")
	vassert(len(a.reconfigs) == 1 && a.tReconfig.isRunning(), "and is repeated until it is answered")
	vcover("end")
}

// C14.L9: end-of-file is final also for a reader that arms or clears its deadline afterwards (= C18.L4).
func vh_C14_L9_deadline_after_eof_keeps_eof() { vh_C18_L4_read_deadline() }

// C14.L10: a repeated reset request does not hit the next incarnation. The peer closed its
// direction of stream 4: the request is performed (end-of-file for the reader) and answered;
// the answer is lost. The peer, whose own side of the stream has been reset as well, opens
// the identifier again and sends a message on it (a new stream is created here); then its
// reconfiguration timer repeats the old request (same request sequence number). The repeat
// is answered again but must not be performed again: the new incarnation, which the peer
// never closed, keeps its message readable and gets no end-of-file.
// (RFC 6525 5.2.1: a request whose sequence number was already processed is a retransmission.)
func vh_C14_L10_repeated_reset_request_spares_the_new_incarnation() {
	a, _ := vNewAssoc()
	cum := a.peerLastTSN()
	vassert(vDeliver(a, vDataChunk(a, cum+1, 4, false, 1)) == nil, "DATA ok")
	old := a.streams[4]
	req := &paramOutgoingResetRequest{reconfigRequestSequenceNumber: nondetU32(), senderLastTSN: cum + 1, streamIdentifiers: []uint16{4}}
	vassert(vDeliver(a, &chunkReconfig{paramA: req}) == nil, "RECONFIG ok")
	_, still := a.streams[4]
	vassert(!still && old.readErr == io.EOF, "the reset is performed: end-of-file for the reader of the old incarnation")
	_ = vWriterWake(a) // the answer goes out - and is lost
	// the identifier is used again by the peer
	vassert(vDeliver(a, vDataChunk(a, cum+2, 4, false, 2)) == nil, "DATA ok")
	fresh := a.streams[4]
	vassert(fresh != nil && fresh != old && fresh.getNumBytesInReassemblyQueue() == 2, "a new incarnation of the stream holds the message")
	// the peer's timer repeats the request it has had no answer to
	vassert(vDeliver(a, &chunkReconfig{paramA: req}) == nil, "RECONFIG ok")
	answered := false
	for _, raw := range vWriterWake(a) {
		for _, c := range vDecode(raw).chunks {
			if rc, ok := c.(*chunkReconfig); ok {
				if resp, ok := rc.paramA.(*paramReconfigResponse); ok && resp.reconfigResponseSequenceNumber == req.reconfigRequestSequenceNumber {
					answered = true
				}
			}
		}
	}
	vassert(answered, "the repeated request is answered again")
	vassert(a.streams[4] == fresh && fresh.readErr == nil, "a repeated reset request is not performed a second time: the new incarnation gets no end-of-file")
	vcover("end")
}

// C14.L11: a late answer does not touch the next incarnation. This side closed stream 1 (its
// reset request is out, unanswered); the peer closed its direction too, so the stream is
// gone here; the application opens the identifier again and writes two messages on the new
// stream (sequence numbers 0 and 1); only then does the "performed" answer to the old
// request arrive. The new incarnation keeps its sequence numbers: the next message goes out
// with number 2 - not 0 again (which the peer, already past it, would never deliver).
func vh_C14_L11_late_reset_answer_spares_the_new_incarnation() {
	il := vPick(2) == 1
	a, _ := vNewAssocOpts(vAssocOpts{interleaving: il})
	old, err := a.OpenStream(1, PayloadTypeWebRTCBinary)
	vassert(err == nil, "open stream")
	vassert(old.Close() == nil, "close")
	a.cwnd, a.rwnd = 1<<20, 1<<20
	_ = vWriterWake(a)
	vassert(len(a.reconfigs) == 1, "the reset request is out")
	var rsn uint32
	for k := range a.reconfigs {
		rsn = k
	}
	// the peer resets its direction of the stream: it is gone here
	peerReq := &paramOutgoingResetRequest{reconfigRequestSequenceNumber: nondetU32(), senderLastTSN: a.peerLastTSN(), streamIdentifiers: []uint16{1}}
	vassert(vDeliver(a, &chunkReconfig{paramA: peerReq}) == nil, "RECONFIG ok")
	_, still := a.streams[1]
	vassert(!still, "the stream is unregistered")
	_ = vWriterWake(a)
	fresh, err2 := a.OpenStream(1, PayloadTypeWebRTCBinary)
	vassert(err2 == nil && fresh != old, "the identifier is opened again: a new stream")
	for i := 0; i < 2; i++ {
		_, werr := fresh.WriteSCTP([]byte{byte(i)}, PayloadTypeWebRTCBinary)
		vassert(werr == nil, "write accepted")
	}
	_ = vWriterWake(a)
	// the answer to the old request arrives late
	vassert(vDeliver(a, &chunkReconfig{paramA: &paramReconfigResponse{reconfigResponseSequenceNumber: rsn, result: reconfigResultSuccessPerformed}}) == nil, "RECONFIG ok")
	vassert(len(a.reconfigs) == 0, "the old request is retired")
	_, werr := fresh.WriteSCTP([]byte{9}, PayloadTypeWebRTCBinary)
	vassert(werr == nil, "write accepted")
	var last *chunkPayloadData
	for _, raw := range vWriterWake(a) {
		for _, c := range vDecode(raw).chunks {
			if d, ok := c.(*chunkPayloadData); ok {
				last = d
			}
		}
	}
	vassert(last != nil, "the third message goes out")
	if last != nil {
		if il {
			vassert(last.messageIdentifier == 2, "the new incarnation keeps counting: message identifier 2, not 0 again")
		} else {
			vassert(last.streamSequenceNumber == 2, "the new incarnation keeps counting: sequence number 2, not 0 again")
		}
	}
	vcover("end")
}
