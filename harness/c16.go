//go:build verif

package sctp

// C16 — sequence-number wrap-around is invisible.

// C16.L1: algebra of the serial-number helpers, full width, no bound.
func vh_C16_L1_sna32() {
	a, b, d := nondetU32(), nondetU32(), nondetU32()
	lt, lte, gt, gte, eq := sna32LT(a, b), sna32LTE(a, b), sna32GT(a, b), sna32GTE(a, b), sna32EQ(a, b)
	diff := a - b
	if diff != 1<<31 { // exactly half the space apart is undefined in RFC 1982
		n := 0
		if lt {
			n++
		}
		if eq {
			n++
		}
		if gt {
			n++
		}
		vassert(n == 1, "sna32: exactly one of before/equal/after")
		vassert(lt == sna32GT(b, a), "sna32: LT(a,b) == GT(b,a)")
	}
	vassert(eq == (a == b), "sna32: EQ is equality")
	vassert(lte == (lt || eq), "sna32: LTE == LT or EQ")
	vassert(gte == (gt || eq), "sna32: GTE == GT or EQ")
	// reference: a before b iff 0 < b-a < 2^31
	if diff != 1<<31 {
		vassert(lt == (b-a != 0 && b-a < 1<<31), "sna32: LT matches serial-number definition")
		vassert(gt == (a-b != 0 && a-b < 1<<31), "sna32: GT matches serial-number definition")
	}
	// shift invariance
	vassert(sna32LT(a+d, b+d) == lt, "sna32: LT shift invariant")
	vassert(sna32LTE(a+d, b+d) == lte, "sna32: LTE shift invariant")
	vassert(sna32GT(a+d, b+d) == gt, "sna32: GT shift invariant")
	vassert(sna32GTE(a+d, b+d) == gte, "sna32: GTE shift invariant")
	vobserve("lt", vb2u(lt))
	vobserve("gt", vb2u(gt))
	vcover("end")
}

func vh_C16_L1_sna16() {
	a, b, d := nondetU16(), nondetU16(), nondetU16()
	lt, lte, gt, gte, eq := sna16LT(a, b), sna16LTE(a, b), sna16GT(a, b), sna16GTE(a, b), sna16EQ(a, b)
	diff := a - b
	if diff != 1<<15 {
		n := 0
		if lt {
			n++
		}
		if eq {
			n++
		}
		if gt {
			n++
		}
		vassert(n == 1, "sna16: exactly one of before/equal/after")
		vassert(lt == sna16GT(b, a), "sna16: LT(a,b) == GT(b,a)")
		vassert(lt == (b-a != 0 && b-a < 1<<15), "sna16: LT matches serial-number definition")
		vassert(gt == (a-b != 0 && a-b < 1<<15), "sna16: GT matches serial-number definition")
	}
	vassert(eq == (a == b), "sna16: EQ is equality")
	vassert(lte == (lt || eq), "sna16: LTE == LT or EQ")
	vassert(gte == (gt || eq), "sna16: GTE == GT or EQ")
	vassert(sna16LT(a+d, b+d) == lt, "sna16: LT shift invariant")
	vassert(sna16LTE(a+d, b+d) == lte, "sna16: LTE shift invariant")
	vassert(sna16GT(a+d, b+d) == gt, "sna16: GT shift invariant")
	vassert(sna16GTE(a+d, b+d) == gte, "sna16: GTE shift invariant")
	vobserve("lt", vb2u(lt))
	vobserve("gt", vb2u(gt))
	vcover("end")
}
