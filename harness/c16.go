//go:build verif

package sctp

// C16 — sequence-number wrap-around is invisible.

// C16.L1: algebra of the serial-number helpers, full width, no bound.
func vh_C16_L1_sna32() {
	a, b, d := nondetU32(), nondetU32(), nondetU32()
	lt, lte, gt, gte, eq := sna32LT(a, b), sna32LTE(a, b), sna32GT(a, b), sna32GTE(a, b), sna32EQ(a, b)
	diff := a - b
	if diff != 1<<31 { // exactly half the space apart is undefined in RFC 1982
		n := 0
		if lt {
			n++
		}
		if eq {
			n++
		}
		if gt {
			n++
		}
		vassert(n == 1, "sna32: exactly one of before/equal/after")
		vassert(lt == sna32GT(b, a), "sna32: LT(a,b) == GT(b,a)")
	}
	vassert(eq == (a == b), "sna32: EQ is equality")
	vassert(lte == (lt || eq), "sna32: LTE == LT or EQ")
	vassert(gte == (gt || eq), "sna32: GTE == GT or EQ")
	// reference: a before b iff 0 < b-a < 2^31
	if diff != 1<<31 {
		vassert(lt == (b-a != 0 && b-a < 1<<31), "sna32: LT matches serial-number definition")
		vassert(gt == (a-b != 0 && a-b < 1<<31), "sna32: GT matches serial-number definition")
	}
	// shift invariance
	vassert(sna32LT(a+d, b+d) == lt, "sna32: LT shift invariant")
	vassert(sna32LTE(a+d, b+d) == lte, "sna32: LTE shift invariant")
	vassert(sna32GT(a+d, b+d) == gt, "sna32: GT shift invariant")
	vassert(sna32GTE(a+d, b+d) == gte, "sna32: GTE shift invariant")
	vobserve("lt", vb2u(lt))
	vobserve("gt", vb2u(gt))
	vcover("end")
}

func vh_C16_L1_sna16() {
	a, b, d := nondetU16(), nondetU16(), nondetU16()
	lt, lte, gt, gte, eq := sna16LT(a, b), sna16LTE(a, b), sna16GT(a, b), sna16GTE(a, b), sna16EQ(a, b)
	diff := a - b
	if diff != 1<<15 {
		n := 0
		if lt {
			n++
		}
		if eq {
			n++
		}
		if gt {
			n++
		}
		vassert(n == 1, "sna16: exactly one of before/equal/after")
		vassert(lt == sna16GT(b, a), "sna16: LT(a,b) == GT(b,a)")
		vassert(lt == (b-a != 0 && b-a < 1<<15), "sna16: LT matches serial-number definition")
		vassert(gt == (a-b != 0 && a-b < 1<<15), "sna16: GT matches serial-number definition")
	}
	vassert(eq == (a == b), "sna16: EQ is equality")
	vassert(lte == (lt || eq), "sna16: LTE == LT or EQ")
	vassert(gte == (gt || eq), "sna16: GTE == GT or EQ")
	vassert(sna16LT(a+d, b+d) == lt, "sna16: LT shift invariant")
	vassert(sna16LTE(a+d, b+d) == lte, "sna16: LTE shift invariant")
	vassert(sna16GT(a+d, b+d) == gt, "sna16: GT shift invariant")
	vassert(sna16GTE(a+d, b+d) == gte, "sna16: GTE shift invariant")
	vobserve("lt", vb2u(lt))
	vobserve("gt", vb2u(gt))
	vcover("end")
}

// C16.L2: the in-flight queue is addressed by TSN offset from its front: get(t) hits
// exactly the chunks pushed, at every front TSN (including a queue that straddles 2^32).
func vh_C16_L2_inflight_lookup() {
	q := newPayloadQueue()
	front := nondetU32()
	n := 1 + vPick(4)
	var cs [4]*chunkPayloadData
	for i := 0; i < n; i++ {
		cs[i] = &chunkPayloadData{tsn: front + uint32(i), userData: make([]byte, 1+i)}
		q.pushNoCheck(cs[i])
	}
	t := nondetU32()
	c, ok := q.get(t)
	off := t - front
	vassert(ok == (off < uint32(n)), "get(t) hits exactly the TSNs in [front, front+len)")
	if ok {
		vassert(c == cs[off] && c.tsn == t, "and returns the chunk with that TSN")
	}
	// pop only takes the front
	p, popped := q.pop(t)
	vassert(popped == (t == front), "pop(t) succeeds exactly for the front TSN")
	if popped {
		vassert(p == cs[0] && q.size() == n-1 && q.getNumBytes() == (n*(n+1))/2-1, "and removes exactly the front chunk")
	} else {
		vassert(q.size() == n, "a failed pop changes nothing")
	}
	vobserve("ok", vb2u(ok))
	vcover("end")
}

// C16.L3: ordering of chunks and chunk sets by TSN / SSN / FSN / MID uses serial
// arithmetic: three elements at a symbolic base (any position relative to the wrap) in
// every input order come out in serial order.
func vh_C16_L3_sort_orders() {
	base32 := nondetU32()
	base16 := nondetU16()
	perm := vPermute(3)
	switch vPick(4) {
	case 0:
		a := make([]*chunkPayloadData, 3)
		for i, k := range perm {
			a[i] = &chunkPayloadData{tsn: base32 + uint32(k)}
		}
		sortChunksByTSN(a)
		vassert(a[0].tsn == base32 && a[1].tsn == base32+1 && a[2].tsn == base32+2, "chunks sorted by TSN in serial order")
	case 1:
		a := make([]*chunkSet, 3)
		for i, k := range perm {
			a[i] = &chunkSet{ssn: base16 + uint16(k)}
		}
		sortChunksBySSN(a)
		vassert(a[0].ssn == base16 && a[1].ssn == base16+1 && a[2].ssn == base16+2, "chunk sets sorted by SSN in serial order")
	case 2:
		a := make([]*chunkPayloadData, 3)
		for i, k := range perm {
			a[i] = &chunkPayloadData{fragmentSequenceNumber: base32 + uint32(k)}
		}
		sortChunksByFSN(a)
		vassert(a[0].fragmentSequenceNumber == base32 && a[2].fragmentSequenceNumber == base32+2, "fragments sorted by FSN in serial order")
	case 3:
		var a []*chunkSetMID
		for _, k := range perm {
			a = insertChunkSetByMID(a, &chunkSetMID{mid: base32 + uint32(k)})
		}
		vassert(len(a) == 3 && a[0].mid == base32 && a[1].mid == base32+1 && a[2].mid == base32+2, "chunk sets inserted by MID in serial order")
	}
	vcover("end")
}

// C16.L4: the wrap-sensitive handler obligations of other properties, all of which run
// with fully symbolic sequence-number bases, are part of this property's check:
// receiver cursor advance at the SSN/MID wrap, deferred reset against a symbolic last
// TSN, the ack decision for a symbolic TSN, window capacity for every buffer size.
func vh_C16_L4_receiver_skip_at_wrap()   { vh_C07_L3_receiver_skip_exact() }
func vh_C16_L4_deferred_reset()          { vh_C14_L2_deferred_reset() }
func vh_C16_L4_ack_policy()              { vh_C19_L5_ack_policy() }
func vh_C16_L4_window_capacity()         { vh_C01_L4_tracking_window_capacity() }
func vh_C16_L4_ordered_reassembly()      { vh_C01_L5_ordered_reassembly() }
func vh_C16_L4_cwnd_laws_any_tsn()       { vh_C10_L3_cwnd_laws() }
func vh_C16_L4_transfer_across_wrap()    { vh_C02_L1_reliable_transfer_one_fault() }
func vh_C16_L4_forward_tsn_largest_ssn() { vh_C07_L2_advance_only_over_abandoned() }
func vh_C16_L4_gap_fill_at_zero_window() { vh_C11_L2_credit_and_full_buffer() }

func vh_C16_L4_clear_range_across_wrap()       { vh_C05_step_clear_range() }
func vh_C16_L4_failed_write_rollback_at_wrap() { vh_C18_L2_block_write_gate() }

// C16.L5: loss-detection state does not depend on where the TSN space starts. Two chunks in
// flight at a symbolic TSN base, both original transmissions; a SACK acknowledges the first,
// then one acknowledges the second: acknowledgements arriving in transmission order are not
// reordering, so the RACK reordering flag stays clear at every base.
func vh_C16_L5_rack_state_independent_of_tsn_base() {
	f := vInFlight(2, false)
	a := f.a
	vassert(!a.rackReorderingSeen, "no reordering seen on a fresh association")
	vassert(vDeliver(a, &chunkSelectiveAck{cumulativeTSNAck: f.base + 1, advertisedReceiverWindowCredit: 1 << 20}) == nil, "SACK ok")
	vassert(!a.rackReorderingSeen, "the first in-order acknowledgement is not reordering, whatever the initial TSN")
	vassert(vDeliver(a, &chunkSelectiveAck{cumulativeTSNAck: f.base + 2, advertisedReceiverWindowCredit: 1 << 20}) == nil, "SACK ok")
	vassert(!a.rackReorderingSeen, "nor is the second")
	vassert(a.rackHighestDeliveredOrigTSN == f.base+2, "the high-water mark of delivered original TSNs follows the acknowledgements")
	vcover("end")
}
func vh_C16_L4_close_across_the_wrap() { vh_C14_L1_close_after_data_and_reuse() }

// C16.L4 (continued): Karn's rule and the once-per-round-trip gate at any TSN (= C19.L4, whose
// TSN base is symbolic), and the stream reset with its request sequence number at the wrap
// (= C14.L1).
func vh_C16_L4_karn_at_any_tsn()                  { vh_C19_L4_karn() }
func vh_C16_L4_reset_request_number_at_the_wrap() { vh_C14_L1_close_after_data_and_reuse() }

// C16.L4 (continued): a tail-loss-recovery episode ends wherever the TSNs lie (= C10.L7).
func vh_C16_L4_tail_loss_recovery_ends_at_any_tsn() { vh_C10_L7_tail_loss_recovery_ends() }
