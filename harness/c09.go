//go:build verif

package sctp

import (
	"errors"
	"fmt"
	"io"
	"os"
	"time"
)

// C09 — Close, Abort or transport failure at any moment unblocks callers, leaks nothing.
// Decided here: the effect of each teardown path from an arbitrary association state
// (the "crash point" is the symbolic pre-state) and the wake-up condition of every
// blocking API call. Goroutine scheduling itself is outside the claim.

func vTeardownPreState() (*Association, *vConn, []*Stream) {
	a, conn := vNewAssocOpts(vAssocOpts{blockWrite: vPick(2) == 1})
	var streams []*Stream
	ns := vPick(3)
	for i := 0; i < ns; i++ {
		s, _ := a.OpenStream(uint16(i+1), PayloadTypeWebRTCBinary)
		streams = append(streams, s)
	}
	if ns > 0 && vPick(2) == 1 {
		_, _ = streams[0].WriteSCTP(nondetBytes(1), PayloadTypeWebRTCBinary) // data queued (and, with BlockWrite, the gate closed)
	}
	a.setState(uint32(vPick(8)))
	if vPick(2) == 1 {
		conn.closeErr = vConnErr{} // closing the transport may itself fail
	}
	return a, conn, streams
}

func vAssertTornDown(a *Association, conn *vConn, streams []*Stream, wantErr error) {
	vassert(a.getState() == closed, "the association ends in CLOSED")
	vassert(vIsShut(a), "the writer is told to stop")
	for _, s := range streams {
		vassert(s.readErr != nil, "every stream gets a read error")
		if wantErr != nil {
			vassert(errors.Is(s.readErr, wantErr), "the read error carries the cause")
		}
		// a blocked or later read returns instead of waiting
		n, _, rerr := s.ReadSCTP(make([]byte, 4))
		vassert(n == 0 && rerr != nil, "reads return the error instead of blocking")
		_, werr := s.WriteSCTP([]byte{1}, PayloadTypeWebRTCBinary)
		vassert(werr != nil, "writes fail instead of blocking")
	}
	vassert(len(a.streams) == 0, "all streams are unregistered")
	_, aerr := a.AcceptStream()
	vassert(aerr == io.EOF, "AcceptStream returns EOF instead of blocking")
	vassert(!a.writePending, "blocked writers are released")
	// every timer is closed: a later start arms nothing, also after a stop (handlers of packets
	// read just before the teardown stop and restart timers)
	vassert(!a.t1Init.start(1000) && !a.t1Cookie.start(1000) && !a.t2Shutdown.start(1000) && !a.t3RTX.start(1000) && !a.tReconfig.start(1000) && !a.ackTimer.start(), "all timers are closed")
	for _, t := range []*rtxTimer{a.t1Init, a.t1Cookie, a.t2Shutdown, a.t3RTX, a.tReconfig} {
		t.stop()
		vassert(!t.start(1000) && !t.isRunning(), "a closed timer stays closed when a late handler stops and restarts it")
	}
	a.ackTimer.stop()
	vassert(!a.ackTimer.start(), "the ack timer stays closed too")
	vassert(vLocksFree(a, nil), "no lock is left held")
}

// C09.L1: transport failure: the read loop exits and cleans up from any state, whether or
// not Close already ran; Close afterwards (and repeatedly) is harmless.
func vh_C09_L1_read_loop_exit() {
	a, conn, streams := vTeardownPreState()
	conn.failReads = true
	closedBefore := vPick(2) == 1
	if closedBefore {
		_ = a.close()
	}
	a.readLoop()
	// the writer may still be stuck in a transport write: the read loop's exit alone must
	// leave the association closed for everybody who is woken by it
	vassert(a.getState() == closed, "the association is CLOSED as soon as the read loop has ended")
	for _, s := range streams {
		_, werr := s.WriteSCTP([]byte{1}, PayloadTypeWebRTCBinary)
		vassert(werr != nil, "a writer released by the read loop's exit gets an error")
	}
	a.writeLoop() // the writer reacts to the stop signal
	vAssertTornDown(a, conn, streams, nil)
	vassert((a.Close() != nil) == (conn.closeErr != nil), "Close after the read loop ended returns (with the transport's close result)")
	vassert((a.Close() != nil) == (conn.closeErr != nil), "repeated Close is harmless")
	vassert(conn.closes == 1, "the transport is closed exactly once")
	vassert(a.Shutdown(vNeverCtx{}) != nil, "Shutdown on a closed association fails instead of hanging")
	vcover("end")
}

// C09.L1b: an inbound ABORT closes this side with an error that carries the cause.
func vh_C09_L1_inbound_abort() {
	a, conn, streams := vTeardownPreState()
	abort := &chunkAbort{errorCauses: []errorCause{&errorCauseUserInitiatedAbort{upperLayerAbortReason: nondetBytes(2)}}}
	// with zero checksums negotiated the peer sends its ABORT, like every other packet, with a
	// zero checksum field: it must close this side all the same
	zero := vPick(2) == 1
	a.recvZeroChecksum = zero
	raw, err := (&packet{verificationTag: a.myVerificationTag, sourcePort: 5000, destinationPort: 5000, chunks: []chunk{abort}}).marshal(!zero)
	vassert(err == nil, "abort packet marshals")
	// a stream whose read deadline has already expired still learns the teardown error
	if len(streams) > 0 && vPick(2) == 1 {
		streams[0].lock.Lock()
		streams[0].readErr = ErrReadDeadlineExceeded
		streams[0].lock.Unlock()
	}
	conn.inbound = [][]byte{raw}
	conn.failReads = true
	a.readLoop()
	a.writeLoop() // the writer reacts to the stop signal
	vAssertTornDown(a, conn, streams, ErrChunk)
	vassert(conn.closes == 1, "the transport is closed exactly once")
	vcover("end")
}

// C09.L3: close is idempotent and final.
func vh_C09_L3_close_idempotent() {
	a, conn, _ := vTeardownPreState()
	n := 1 + vPick(3)
	for i := 0; i < n; i++ {
		cerr := a.close()
		vassert((cerr != nil) == (conn.closeErr != nil), "close reports exactly what closing the transport reported")
	}
	vassert(conn.closes == 1, "the transport is closed exactly once however often close runs")
	vassert(a.getState() == closed && vIsShut(a), "closed")
	vassert(len(vWriterPass(a)) == 0, "nothing more is gathered for the wire after close")
	vassert(!a.t3RTX.start(1000) && !a.ackTimer.start(), "timers stay closed")
	// callers blocked in Shutdown are released by close
	b, _ := vNewAssoc()
	_ = b.close()
	b.setState(established)
	vassert(b.Shutdown(vNeverCtx{}) == nil, "a Shutdown call returns once the writer has been told to stop")
	vcover("end")
}

// C09.L4: a transport write failure closes the transport and ends the writer.
func vh_C09_L4_write_failure() {
	a, conn, _ := vTeardownPreState()
	conn.failWrites = true
	switch vPick(3) { // whatever the error is, including a half-closed transport reporting EOF
	case 1:
		conn.writeErr = io.EOF
	case 2:
		conn.writeErr = fmt.Errorf("write: %w", io.EOF)
	}
	a.setState(established)
	a.lock.Lock()
	a.sendActiveHeartbeatLocked() // something to write
	a.lock.Unlock()
	a.writeLoop()
	vassert(conn.writes == 1, "one write was attempted")
	vassert(conn.closes == 1, "the transport is closed so the reader can finish")
	vassert(a.getState() == closed, "the association ends in CLOSED")
	vassert(!a.t3RTX.start(1000) && !a.ackTimer.start(), "timers are closed")
	vassert(vLocksFree(a, nil), "no lock is left held")
	vcover("end")
}

// C09.L5: Abort returns promptly even when the ABORT can never be written: the reader has
// already ended (transport failure, or Close ran first) and no writer is left to signal
// that the ABORT went out. Both bounded waits of Abort must time out; nothing is written.
func vh_C09_L5_abort_returns_without_writer() {
	a, conn, _ := vTeardownPreState()
	conn.failReads = true
	if vPick(2) == 1 {
		_ = a.close()
	}
	a.readLoop()
	a.writeLoop()
	writes := conn.writes
	vMustNotBlock("Abort returns although the ABORT is never written (reader and writer already gone)")
	a.Abort("going away")
	vMayBlock()
	vassert(conn.writes == writes, "nothing more is written to the connection after the teardown")
	vassert(a.getState() == closed, "still closed")
	vassert(vLocksFree(a, nil), "no lock is left held")
	vcover("end")
}

// C09.L6: every point at which the read loop can park inside a handler is released by
// Close. The handshake result is handed to the connect call through an unbuffered channel;
// when that call has gone away (cancelled) and Close has run, completeHandshake must give
// up instead of waiting for a receiver.
func vh_C09_L6_parked_handshake_handler_released_by_close() {
	a := vHandshakeEndpoint(vPick(2) == 1, false)
	a.handshakeCompletedCh = make(chan error) // nobody is receiving any more
	if vPick(2) == 1 {
		a.initClient()
	} else {
		a.initServer()
	}
	_ = a.close()
	vMustNotBlock("a read loop parked in completeHandshake is released by Close")
	sent := a.completeHandshake(nil)
	vMayBlock()
	vassert(!sent, "the result is not delivered to anybody")
	vcover("end")
}

// C09.L6b: the same with Close itself racing the handler. The handlers (COOKIE ACK, COOKIE
// ECHO, a T1 failure) offer the handshake result while they hold the association lock; the
// connect call has gone away, so the offer parks; Close, called from another goroutine at
// that moment, must still get through and release the handler (it cannot need the
// association lock before it has closed the channels the handler is watching).
func vh_C09_L6_close_gets_through_to_a_handler_parked_under_the_lock() {
	a := vHandshakeEndpoint(vPick(2) == 1, false)
	a.handshakeCompletedCh = make(chan error) // nobody is receiving any more
	vGoLive = true
	vGo(func() {
		vSleep(50 * time.Millisecond) // the handler is parked by now
		_ = a.Close()
	})
	a.lock.Lock() // chunk handlers and timer callbacks run under the association lock
	vMustNotBlock("a handler parked in completeHandshake under the association lock is released by a concurrent Close")
	sent := a.completeHandshake(nil)
	vMayBlock()
	a.lock.Unlock()
	vassert(!sent, "the result is not delivered to anybody")
	vassert(vIsShut(a), "Close got through")
	vcover("end")
}

// C09.L12: nothing is left behind by a reader that was parked when the association ended. A
// read deadline far in the future is armed (its goroutine waits for the timer or for its
// cancel channel) and a reader is parked in a real ReadSCTP call on the empty stream; then,
// from another goroutine, the transport fails, the peer aborts or Close is called. The
// parked read returns the teardown error, and by the time it has returned the deadline
// goroutine has been told to stop (its cancel channel is closed): no goroutine and no timer
// outlive the association.
func vh_C09_L12_parked_reader_leaves_no_deadline_goroutine() {
	a, conn := vNewAssoc()
	s, err := a.OpenStream(3, PayloadTypeWebRTCBinary)
	vassert(err == nil, "open stream")
	vassert(s.SetReadDeadline(time.Now().Add(time.Hour)) == nil, "deadline armed")
	cancel := s.readTimeoutCancel
	vassert(len(vSpawned) == 1 && cancel != nil, "the deadline goroutine is pending")
	how := vPick(3)
	vGoLive = true
	vGo(func() {
		vSleep(50 * time.Millisecond) // the reader is parked by now
		switch how {
		case 0: // transport failure
			conn.failReads = true
			a.readLoop()
		case 1: // ABORT from the peer
			abort := &chunkAbort{errorCauses: []errorCause{&errorCauseUserInitiatedAbort{upperLayerAbortReason: []byte{1, 2}}}}
			raw, _ := (&packet{verificationTag: a.myVerificationTag, sourcePort: 5000, destinationPort: 5000, chunks: []chunk{abort}}).marshal(true)
			conn.inbound = [][]byte{raw}
			conn.failReads = true
			a.readLoop()
		case 2: // Close
			conn.failReads = true
			_ = a.close()
			a.readLoop()
		}
	})
	vMustNotBlock("a reader parked on a stream is released by the teardown")
	n, _, rerr := s.ReadSCTP(make([]byte, 4))
	vMayBlock()
	vassert(n == 0 && rerr != nil && !errors.Is(rerr, ErrReadDeadlineExceeded), "the parked read returns the teardown error")
	stopped := false
	select {
	case <-cancel:
		stopped = true
	default:
	}
	vassert(stopped, "the read-deadline goroutine is told to stop when the read returns: nothing outlives the association")
	vSpawned = nil
	vcover("end")
}

// C09.L7: every reader blocked on a stream is woken by the teardown, not just one of them.
func vh_C09_L7_every_blocked_reader_is_woken() {
	a, conn, streams := vTeardownPreState()
	if len(streams) == 0 {
		vcover("end")
		return
	}
	s := streams[0]
	nReaders := 1 + vPick(3)
	vCondPark(s.readNotifier, nReaders)
	switch vPick(3) {
	case 0: // transport failure
		conn.failReads = true
		a.readLoop()
	case 1: // ABORT from the peer
		abort := &chunkAbort{errorCauses: []errorCause{&errorCauseUserInitiatedAbort{upperLayerAbortReason: nondetBytes(2)}}}
		raw, _ := (&packet{verificationTag: a.myVerificationTag, sourcePort: 5000, destinationPort: 5000, chunks: []chunk{abort}}).marshal(true)
		conn.inbound = [][]byte{raw}
		conn.failReads = true
		a.readLoop()
	case 2: // Close
		conn.failReads = true
		_ = a.close()
		a.readLoop()
	}
	vassert(s.readErr != nil, "the stream carries the teardown error")
	vassert(vCondParked(s.readNotifier) == 0, "every reader blocked on the stream is woken by the teardown")
	vcover("end")
}

// C09.L8: a read deadline that passes after the teardown does not hide the teardown error
// from readers (same obligation as C18.L4).
func vh_C09_L8_deadline_does_not_replace_teardown_error() { vh_C18_L4_read_deadline() }

// vTeardownWhileParkedCtx: a context whose Done() is consulted exactly when a blocking
// writer is about to wait (select entry); at that moment the association is torn down
// underneath it (the interleaving "teardown lands between the writer's unlock and its
// wait"). The channel it returns never fires: only the teardown can release the writer.
type vTeardownWhileParkedCtx struct {
	a    *Association
	conn *vConn
	kind int
	done bool
}

func (c *vTeardownWhileParkedCtx) Deadline() (time.Time, bool) { return time.Time{}, false }
func (c *vTeardownWhileParkedCtx) Err() error                  { return nil }
func (c *vTeardownWhileParkedCtx) Value(any) any               { return nil }
func (c *vTeardownWhileParkedCtx) Done() <-chan struct{} {
	if !c.done {
		c.done = true
		c.conn.failReads = true
		if c.kind == 1 {
			_ = c.a.close()
		}
		c.a.readLoop() // transport failure (or Close): the read loop ends and releases everybody
	}
	return nil
}

// C09.L9: a blocking writer that is just about to wait when the association is torn down
// (transport failure or Close) is released with an error: the wake-up is not lost.
func vh_C09_L9_writer_about_to_wait_is_released_by_teardown() {
	a, conn := vNewAssocOpts(vAssocOpts{blockWrite: true})
	s, err := a.OpenStream(1, PayloadTypeWebRTCBinary)
	vassert(err == nil, "open stream")
	_, werr := s.WriteSCTP(nondetBytes(2), PayloadTypeWebRTCBinary)
	vassert(werr == nil && a.writePending, "first write accepted, the gate is closed")
	pend := a.pendingQueue.size()
	chunks, _ := s.packetize(nondetBytes(3), PayloadTypeWebRTCBinary)
	ctx := &vTeardownWhileParkedCtx{a: a, conn: conn, kind: vPick(2)}
	vMustNotBlock("a blocking write that was about to wait when the association was torn down returns")
	serr := a.sendPayloadData(ctx, chunks)
	vMayBlock()
	vassert(ctx.done, "the teardown happened while the writer was at the gate")
	vassert(serr != nil, "the write is rejected")
	vassert(a.pendingQueue.size() <= pend, "and queues nothing")
	vcover("end")
}

// C09.L10: a teardown error is final whatever kind of error it is. The read loop ended with
// a timeout-kind error (the forced read deadline of Abort, or a transport reporting a
// timeout): streams carry it, and setting or clearing a read deadline afterwards does not
// wipe it (only the stream's own deadline error may be cleared that way).
func vh_C09_L10_timeout_kind_teardown_error_is_final() {
	a, _ := vNewAssoc()
	s, err := a.OpenStream(1, PayloadTypeWebRTCBinary)
	vassert(err == nil, "open stream")
	cause := fmt.Errorf("read udp: i/o timeout: %w", os.ErrDeadlineExceeded)
	a.lock.Lock()
	a.unregisterStream(s, cause)
	a.lock.Unlock()
	if vPick(2) == 1 {
		_ = s.SetReadDeadline(time.Now().Add(time.Hour))
		vSpawned = nil
	} else {
		_ = s.SetReadDeadline(time.Time{})
	}
	vassert(s.readErr == cause, "the teardown error survives a later SetReadDeadline")
	vMustNotBlock("a read after teardown returns")
	_, _, rerr := s.ReadSCTP(make([]byte, 4))
	vMayBlock()
	vassert(rerr == cause, "and is what readers get")
	vcover("end")
}

// C09.L11: every teardown releases every parked writer. The channel that blocked writers
// wait on is closed by the read loop's exit whatever the gate's bookkeeping says at that
// moment (one writer may just have been handed the token, writePending already cleared,
// while others are still parked on the same channel).
func vh_C09_L11_teardown_closes_the_writers_channel() {
	a, conn := vNewAssocOpts(vAssocOpts{blockWrite: true})
	ch := a.writeNotify
	a.lock.Lock()
	a.writePending = nondetBool()
	a.lock.Unlock()
	conn.failReads = true
	if vPick(2) == 1 {
		_ = a.close()
	}
	a.readLoop()
	released := false
	select {
	case <-ch:
		released = true
	default:
	}
	vassert(released, "writers parked on the gate's channel are released by the teardown")
	vcover("end")
}

// C09.L13: calls that must return: the connect call gets the handshake result whenever it
// reaches its wait (= C04.L7); a blocking write that fails leaves the gate usable for the
// writers behind it (= C20.L9).
func vh_C09_L13_connect_call_gets_its_result() {
	vh_C04_L7_handshake_result_waits_for_the_connect_call()
}
func vh_C09_L13_failed_writer_does_not_strand_others() {
	vh_C20_L9_parked_write_fails_while_others_go_on()
}

// C09.L14: the ABORT that Abort sends says why, whatever the reason text is (also none). The
// real write loop runs live; Abort is called with an empty or a non-empty reason: it returns,
// exactly one packet was written, and that packet is an ABORT carrying the User-Initiated-Abort
// cause with the reason given - which is what the peer's readers are told.
func vh_C09_L14_abort_always_carries_its_cause() {
	vGoLive = true
	conn := &vConn{}
	cfg := &Config{NetConn: conn, LoggerFactory: vLoggerFactory{}, Name: "v"}
	a := createAssociationFromConfigWithTsn(cfg, 5)
	a.peerVerificationTag = 7
	a.sourcePort, a.destinationPort = 5000, 5000
	a.setState(established)
	reason := []string{"", "x", "bye"}[vPick(3)]
	close(a.readLoopCloseCh) // the reader plays no part here: it has already ended
	vGo(a.writeLoop)
	vMustNotBlock("Abort returns once the ABORT has been written")
	a.Abort(reason)
	vMayBlock()
	vassert(conn.writes == 1, "exactly one packet is written")
	p := vDecode(conn.lastWrite)
	vassert(p != nil && len(p.chunks) == 1, "one chunk")
	if p == nil || len(p.chunks) != 1 {
		return
	}
	abort, ok := p.chunks[0].(*chunkAbort)
	vassert(ok, "an ABORT")
	if !ok {
		return
	}
	vassert(len(abort.errorCauses) == 1, "the ABORT carries one error cause")
	if len(abort.errorCauses) == 1 {
		uia, isUIA := abort.errorCauses[0].(*errorCauseUserInitiatedAbort)
		vassert(isUIA && string(uia.upperLayerAbortReason) == reason, "the User-Initiated-Abort cause with the reason given, also when the reason is empty")
	}
	vcover("end")
}

// C09.L15: closing a stream never takes the association lock while holding the stream's own
// (the read loop's exit path takes them the other way round; = C14.L5 under the lock wrappers).
func vh_C09_L15_stream_close_keeps_the_lock_order() { vh_C14_L5_in_progress_keeps_request() }
