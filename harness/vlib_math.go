//go:build verif

package sctp

import "math"

func float64frombits(b uint64) float64 { return math.Float64frombits(b) }
