//go:build verif

package sctp

import (
	"io"
	"time"
)

// SACK processing obligations (serve C03.L3, C15.L3, C10.L2, C19.L4, C02.L3).

type vFlight struct {
	a      *Association
	s      *Stream
	base   uint32 // cumulativeTSNAckPoint before the SACK
	n      int    // chunks in flight
	sizes  []int
	total  int
	chunks []*chunkPayloadData
}

// vFlightSizes, when set, gives the payload size of each chunk written by vInFlight.
var vFlightSizes []int

// vInFlight writes n single-chunk messages on one stream and moves them to flight.
func vInFlight(n int, pendingExtra bool) *vFlight {
	vStub("setNewRTT")
	a, _ := vNewAssoc()
	s, err := a.OpenStream(1, PayloadTypeWebRTCBinary)
	vassert(err == nil, "open stream")
	f := &vFlight{a: a, s: s, n: n, base: a.cumulativeTSNAckPoint}
	for i := 0; i < n; i++ {
		sz := 1 + i // distinct sizes make the byte accounting sensitive to which chunk is released
		if i < len(vFlightSizes) {
			sz = vFlightSizes[i]
		}
		f.sizes = append(f.sizes, sz)
		f.total += sz
		_, werr := s.WriteSCTP(make([]byte, sz), PayloadTypeWebRTCBinary)
		vassert(werr == nil, "write accepted")
	}
	a.cwnd, a.rwnd = 1<<20, 1<<20
	budget, consumed := int64(0), false
	a.lock.Lock()
	f.chunks, _ = a.popPendingDataChunksToSend(&budget, &consumed)
	a.lock.Unlock()
	vassert(len(f.chunks) == n, "all chunks in flight")
	if pendingExtra {
		_, werr := s.WriteSCTP(make([]byte, 2), PayloadTypeWebRTCBinary)
		vassert(werr == nil, "write accepted")
		f.total += 2
	}
	return f
}

func (f *vFlight) inflightBytes() int {
	n := 0
	for i := 0; i < f.a.inflightQueue.size(); i++ {
		n += len(f.a.inflightQueue.chunks.At(i).userData)
	}
	return n
}

// C03.L3: a SACK is applied all-or-nothing. k chunks in flight, cumulative ack, a_rwnd
// and up to two gap blocks fully symbolic.
// vSackShape restricts vSackAllOrNothing for the wrappers of other properties:
// 0 = all shapes, 1 = cumulative ack only, 2 = two gap blocks only.
func vh_C03_L3_sack_all_or_nothing() { vSackAllOrNothing(0) }

func vSackAllOrNothing(shape int) {
	var ngap int // 0, 1 or 2 gap blocks
	switch shape {
	case 1:
		ngap = 0
	case 2:
		ngap = 2
	default:
		ngap = vPick(3)
	}
	k := 3 // two gap blocks are only interesting with enough chunks in flight
	if ngap < 2 {
		k = 1 + vPick(3)
	}
	f := vInFlight(k, false)
	a := f.a
	sack := &chunkSelectiveAck{cumulativeTSNAck: nondetU32(), advertisedReceiverWindowCredit: nondetU32()}
	hasGap := ngap >= 1
	var gs, ge, gs2, ge2 uint16
	if ngap >= 1 {
		gs, ge = nondetU16(), nondetU16()
		sack.gapAckBlocks = []gapAckBlock{{gs, ge}}
	}
	if ngap == 2 {
		gs2, ge2 = nondetU16(), nondetU16()
		sack.gapAckBlocks = append(sack.gapAckBlocks, gapAckBlock{gs2, ge2})
	}
	ca := sack.cumulativeTSNAck - f.base // how many chunks the cumulative ack covers, if valid
	vassume(ca != 1<<31)
	valid := ca <= uint32(k)
	if ngap >= 1 && valid {
		valid = gs >= 1 && gs <= ge && ca+uint32(ge) <= uint32(k)
	}
	if ngap == 2 && valid {
		valid = gs2 >= 1 && gs2 <= ge2 && ca+uint32(ge2) <= uint32(k)
	}
	old := ca > 1<<31 // serially behind the ack point: silently dropped
	sizeBefore, bytesBefore, bufBefore := a.inflightQueue.size(), a.inflightQueue.getNumBytes(), f.s.BufferedAmount()
	cwndBefore, rwndBefore := a.cwnd, a.rwnd
	err := vDeliver(a, sack)
	vassert(err == nil, "a SACK is never fatal to the read loop")
	vassert(!vBefore(a.cumulativeTSNAckPoint, f.base), "cumulative TSN ack point never moves backwards")
	if !valid || old {
		vassert(a.cumulativeTSNAckPoint == f.base, "invalid or old SACK: ack point unchanged")
		vassert(a.inflightQueue.size() == sizeBefore && a.inflightQueue.getNumBytes() == bytesBefore, "invalid or old SACK: nothing is released from flight")
		vassert(f.s.BufferedAmount() == bufBefore, "invalid or old SACK: buffered amount unchanged")
		for _, c := range f.chunks {
			vassert(!c.acked && len(c.userData) > 0, "invalid or old SACK: no chunk is marked acked")
		}
		vassert(a.cwnd == cwndBefore && a.rwnd == rwndBefore, "invalid or old SACK: windows unchanged")
		vcover("rejected")
		return
	}
	// valid: exactly the named chunks are released
	vassert(a.cumulativeTSNAckPoint == sack.cumulativeTSNAck, "ack point = cumulative ack")
	vassert(a.inflightQueue.size() == k-int(ca), "chunks at or below the cumulative ack leave the queue")
	released := 0
	for i, c := range f.chunks {
		cum := uint32(i) < ca
		gap := hasGap && uint32(i) >= ca+uint32(gs)-1 && uint32(i) <= ca+uint32(ge)-1
		if ngap == 2 && uint32(i) >= ca+uint32(gs2)-1 && uint32(i) <= ca+uint32(ge2)-1 {
			gap = true
		}
		if cum || gap {
			released += f.sizes[i]
		}
		if !cum {
			vassert(c.acked == gap, "exactly the gap-acked chunks are marked acked")
		}
	}
	vassert(f.s.BufferedAmount() == bufBefore-uint64(released), "buffered amount shrinks by exactly the bytes newly acknowledged")
	vassert(a.inflightQueue.getNumBytes() == f.total-released, "in-flight byte count = unacknowledged bytes")
	vassert(a.inflightQueue.getNumBytes() == f.inflightBytes(), "in-flight byte count = bytes held")
	out := uint32(f.total - released)
	if out >= sack.advertisedReceiverWindowCredit {
		vassert(a.rwnd == 0, "rwnd = max(0, a_rwnd - outstanding)")
	} else {
		vassert(a.rwnd == sack.advertisedReceiverWindowCredit-out, "rwnd = a_rwnd - outstanding")
	}
	if a.inflightQueue.size() > 0 {
		vassert(a.t3RTX.isRunning(), "T3 runs while data is outstanding")
	} else {
		vassert(!a.t3RTX.isRunning(), "T3 is stopped when nothing is outstanding")
	}
	vobserve("released", uint64(released))
	vcover("applied")
}

// C15.L3: bytes are released exactly once across a gap-ack followed by a cumulative ack
// (and a duplicate of it); the stream returns to exactly zero.
func vh_C15_L3_release_once() {
	k := 2 + vPick(2)
	f := vInFlight(k, false)
	a := f.a
	low := uint64(vPick(3))
	f.s.SetBufferedAmountLowThreshold(low)
	calls := 0
	locked := false
	f.s.OnBufferedAmountLow(func() {
		calls++
		// the callback may call back into the stream and the association
		_ = f.s.BufferedAmount()
		_ = a.BufferedAmount()
		if vMutexHeldNative(&f.s.lock) || vRWMutexHeldNative(&a.lock) {
			locked = true
		}
	})
	vassert(f.s.BufferedAmount() == uint64(f.total), "buffered amount = bytes written")
	vassert(a.BufferedAmount() == f.total, "association figure = pending + in flight")
	// SACK 1: gap-ack the last chunk only
	s1 := &chunkSelectiveAck{cumulativeTSNAck: f.base, advertisedReceiverWindowCredit: 1 << 20, gapAckBlocks: []gapAckBlock{{uint16(k), uint16(k)}}}
	vassert(vDeliver(a, s1) == nil, "SACK ok")
	vassert(f.s.BufferedAmount() == uint64(f.total-f.sizes[k-1]), "gap-acked bytes are released")
	// SACK 2: cumulative ack over everything (covers the already gap-acked chunk)
	s2 := &chunkSelectiveAck{cumulativeTSNAck: f.base + uint32(k), advertisedReceiverWindowCredit: 1 << 20}
	vassert(vDeliver(a, s2) == nil, "SACK ok")
	vassert(f.s.BufferedAmount() == 0, "buffered amount returns to exactly zero")
	vassert(a.BufferedAmount() == 0 && a.inflightQueue.size() == 0, "association figure returns to zero")
	// SACK 3: duplicate of SACK 2
	vassert(vDeliver(a, s2) == nil, "duplicate SACK ok")
	vassert(f.s.BufferedAmount() == 0, "a duplicate SACK releases nothing more (no underflow)")
	if uint64(f.total) > low {
		vassert(calls == 1, "low-threshold callback fires once for the one downward crossing")
	} else {
		vassert(calls == 0, "no crossing, no callback")
	}
	vassert(!locked, "callback runs without internal locks held")
	vobserve("calls", uint64(calls))
	vcover("end")
}

// C19.L4: Karn's rule. RTT samples are taken only from chunks sent once and at or
// above the measuring point; at most one per round trip.
func vh_C19_L4_karn() {
	k := 2
	f := vInFlight(k, false)
	a := f.a
	n0, n1 := uint32(1+vPick(2)), uint32(1+vPick(2))
	f.chunks[0].nSent, f.chunks[1].nSent = n0, n1
	measureFrom := a.minTSN2MeasureRTT
	vassert(measureFrom == f.base+1, "measuring point starts at the first TSN")
	next := a.myNextTSN
	ackTwo := vPick(2) == 1
	viaGap := ackTwo && vPick(2) == 1 // the second chunk is acknowledged by a gap block instead of cumulatively
	cum := f.base + 1
	sack := &chunkSelectiveAck{advertisedReceiverWindowCredit: 1 << 20}
	if viaGap {
		// first chunk stays outstanding, second is gap-acked
		cum = f.base
		sack.gapAckBlocks = []gapAckBlock{{2, 2}}
		f.chunks[1].retransmit = false // it has been re-sent, the mark is cleared
	} else if ackTwo {
		cum++
	}
	sack.cumulativeTSNAck = cum
	vassert(vDeliver(a, sack) == nil, "SACK ok")
	sampled := a.minTSN2MeasureRTT == next
	eligible := (!viaGap && n0 == 1) || (ackTwo && n1 == 1)
	vassert(sampled == eligible, "an RTT sample is taken iff a newly acknowledged chunk was transmitted exactly once")
	if !eligible {
		vassert(a.minTSN2MeasureRTT == measureFrom, "retransmitted chunks never move the measuring point")
	}
	vobserve("sampled", vb2u(sampled))
	vcover("end")
}

// C15.L1: write-side accounting. An accepted write adds exactly its length; a write that
// fails (association not established, or a blocking write past its deadline) leaves the
// buffered amount and the sequence numbers as they were - ordered or unordered, DATA or I-DATA.
func vh_C15_L1_write_accounting() {
	il := vPick(2) == 1
	a, _ := vNewAssocOpts(vAssocOpts{interleaving: il, blockWrite: vPick(2) == 1})
	s, err := a.OpenStream(1, PayloadTypeWebRTCBinary)
	vassert(err == nil, "open stream")
	s.SetReliabilityParams(vPick(2) == 1, ReliabilityTypeReliable, 0)
	n1 := 1 + vPick(3)
	ppi1 := []PayloadProtocolIdentifier{PayloadTypeWebRTCBinary, PayloadTypeWebRTCDCEP}[vPick(2)]
	n, werr := s.WriteSCTP(nondetBytes(n1), ppi1)
	vassert(werr == nil && n == n1, "write accepted")
	vassert(s.BufferedAmount() == uint64(n1) && a.BufferedAmount() == n1, "buffered amount grows by the length of an accepted write")
	ssn, omid, umid := s.sequenceNumber, s.nextOrderedMID, s.nextUnorderedMID
	if a.blockWrite {
		s.writeDeadline = deadlineExceeded() // the gate is closed: this write hits its deadline
	} else {
		a.setState(shutdownPending)
	}
	ppi := []PayloadProtocolIdentifier{PayloadTypeWebRTCBinary, PayloadTypeWebRTCDCEP}[vPick(2)] // DCEP is ordered even on an unordered stream
	n, werr = s.WriteSCTP(nondetBytes(1+vPick(3)), ppi)
	vassert(werr != nil && n == 0, "the second write fails")
	vassert(s.BufferedAmount() == uint64(n1) && a.BufferedAmount() == n1, "a failed write leaves the buffered amount alone")
	vassert(s.sequenceNumber == ssn && s.nextOrderedMID == omid && s.nextUnorderedMID == umid, "and consumes no sequence number")
	vcover("end")
}

// C15.L3b: bytes of a message that is abandoned and skipped are released too (same
// obligation as vh_C07_L1, which ends with the sender's buffered amount at zero).
func vh_C15_L3_abandoned_bytes_released() { vh_C07_L1_abandoned_does_not_block() }

// C15.L3c: acknowledgements that arrive after the stream was closed by its writer still
// release its buffered bytes and fire the low-threshold callback.
func vh_C15_L3_release_after_close() {
	f := vInFlight(2, false)
	a := f.a
	calls := 0
	f.s.OnBufferedAmountLow(func() { calls++ })
	vassert(f.s.Close() == nil, "close while data is outstanding")
	vassert(f.s.BufferedAmount() == uint64(f.total), "closing does not change the buffered amount")
	vassert(vDeliver(a, &chunkSelectiveAck{cumulativeTSNAck: f.base + 2, advertisedReceiverWindowCredit: 1 << 20}) == nil, "SACK ok")
	vassert(f.s.BufferedAmount() == 0, "acknowledged bytes are released although the stream is closing")
	vassert(calls == 1, "the low-threshold callback fires for the crossing")
	vcover("end")
}

// C10.L2: rwnd is recomputed only from SACKs that are processed: max(0, a_rwnd - outstanding);
// an old (reordered) SACK does not touch it (cumulative-ack-only shape of vSackAllOrNothing).
func vh_C10_L2_rwnd_from_sack() { vSackAllOrNothing(1) }

// C15.L3d: a SACK rejected for an impossible gap block releases nothing (two-block shape).
func vh_C15_L3_rejected_sack_releases_nothing() { vSackAllOrNothing(2) }

// C15.L4: release arithmetic and threshold crossing for arbitrary amounts, including a
// release larger than the amount (stream identifier reuse): the amount never underflows
// and the callback fires exactly for a downward crossing.
func vh_C15_L4_release_and_threshold() {
	a, _ := vNewAssoc()
	s, _ := a.OpenStream(1, PayloadTypeWebRTCBinary)
	from, low, rel := uint64(nondetU32()), uint64(nondetU32()), nondetU32()
	vassume(rel <= 1<<30)
	s.bufferedAmount = from
	s.SetBufferedAmountLowThreshold(low)
	calls := 0
	s.OnBufferedAmountLow(func() { calls++ })
	s.onBufferReleased(int(rel))
	to := uint64(0)
	if from >= uint64(rel) {
		to = from - uint64(rel)
	}
	vassert(s.BufferedAmount() == to, "the amount shrinks by the bytes released and never underflows")
	want := 0
	if rel > 0 && from > low && to <= low {
		want = 1
	}
	vassert(calls == want, "the low-threshold callback fires exactly for a downward crossing of the threshold")
	vcover("end")
}

// C15.L5: several streams acknowledged by one SACK. Two streams each have a message in
// flight (different sizes); a SACK acknowledges both (cumulatively, or one cumulatively
// and one by gap block): each stream's buffered amount shrinks by exactly its own
// acknowledged bytes, the figures of the streams add up to the association's, and the
// low-threshold callback fires exactly on the stream that crossed its threshold.
func vh_C15_L5_per_stream_release() {
	vStub("setNewRTT")
	a, _ := vNewAssoc()
	s1, _ := a.OpenStream(1, PayloadTypeWebRTCBinary)
	s2, _ := a.OpenStream(2, PayloadTypeWebRTCBinary)
	_, _ = s1.WriteSCTP(make([]byte, 3), PayloadTypeWebRTCBinary)
	_, _ = s2.WriteSCTP(make([]byte, 5), PayloadTypeWebRTCBinary)
	_, _ = s1.WriteSCTP(make([]byte, 7), PayloadTypeWebRTCBinary) // stays outstanding
	a.cwnd, a.rwnd = 1<<20, 1<<20
	budget, consumed := int64(0), false
	a.lock.Lock()
	chunks, _ := a.popPendingDataChunksToSend(&budget, &consumed)
	a.lock.Unlock()
	vassert(len(chunks) == 3, "three chunks in flight")
	fired1, fired2 := 0, 0
	s1.SetBufferedAmountLowThreshold(8)
	s2.SetBufferedAmountLowThreshold(2)
	s1.OnBufferedAmountLow(func() { fired1++ })
	s2.OnBufferedAmountLow(func() { fired2++ })
	base := a.cumulativeTSNAckPoint
	sack := &chunkSelectiveAck{cumulativeTSNAck: base + 2, advertisedReceiverWindowCredit: 1 << 20}
	if vPick(2) == 1 {
		sack = &chunkSelectiveAck{cumulativeTSNAck: base + 1, advertisedReceiverWindowCredit: 1 << 20, gapAckBlocks: []gapAckBlock{{1, 1}}}
	}
	vassert(vDeliver(a, sack) == nil, "SACK ok")
	vassert(s1.BufferedAmount() == 7, "the first stream is released exactly its own 3 acknowledged bytes")
	vassert(s2.BufferedAmount() == 0, "the second stream is released exactly its own 5 acknowledged bytes")
	vassert(uint64(a.BufferedAmount()) == s1.BufferedAmount()+s2.BufferedAmount(), "the streams' figures add up to the association's")
	vassert(fired1 == 1 && fired2 == 1, "each stream that crossed its threshold is told once")
	vcover("end")
}

// C15.L5b: the same with gap blocks that span several streams. Five chunks in flight,
// alternating between two streams (sizes 3, 5, 7, 11, 13); a SACK with any cumulative
// advance 0..3 and one or two gap blocks anywhere above it (every start/end, so a block may
// cover chunks of both streams), then a cumulative SACK over everything: after each, every
// stream's buffered amount equals the bytes of its own chunks not yet acknowledged, the
// figures add up to the association's, and each stream is told once when it crosses its
// threshold.
func vh_C15_L5_gap_blocks_across_streams() {
	vStub("setNewRTT")
	a, _ := vNewAssoc()
	s1, _ := a.OpenStream(1, PayloadTypeWebRTCBinary)
	s2, _ := a.OpenStream(2, PayloadTypeWebRTCBinary)
	sizes := []int{3, 5, 7, 11, 13}
	for i, sz := range sizes {
		s := s1
		if i%2 == 1 {
			s = s2
		}
		_, werr := s.WriteSCTP(make([]byte, sz), PayloadTypeWebRTCBinary)
		vassert(werr == nil, "write accepted")
	}
	a.cwnd, a.rwnd = 1<<20, 1<<20
	budget, consumed := int64(0), false
	a.lock.Lock()
	chunks, _ := a.popPendingDataChunksToSend(&budget, &consumed)
	a.lock.Unlock()
	vassert(len(chunks) == 5, "five chunks in flight")
	fired1, fired2 := 0, 0
	s1.SetBufferedAmountLowThreshold(0)
	s2.SetBufferedAmountLowThreshold(0)
	s1.OnBufferedAmountLow(func() { fired1++ })
	s2.OnBufferedAmountLow(func() { fired2++ })
	base := a.cumulativeTSNAckPoint
	adv := vPick(4)
	// first block [g1s, g1e] above the new cumulative point (offsets from it, at least 2)
	g1s := 2 + vPick(5-adv-1)
	g1e := g1s + vPick(5-adv-g1s+1)
	blocks := []gapAckBlock{{uint16(g1s), uint16(g1e)}}
	if g1e+2 <= 5-adv && vPick(2) == 1 {
		g2s := g1e + 2
		blocks = append(blocks, gapAckBlock{uint16(g2s), uint16(g2s + vPick(5-adv-g2s+1))})
	}
	acked := func(i int) bool { // chunk i (0-based) is acknowledged by the first SACK
		off := i + 1 - adv
		if off <= 0 {
			return true
		}
		for _, b := range blocks {
			if off >= int(b.start) && off <= int(b.end) {
				return true
			}
		}
		return false
	}
	sack := &chunkSelectiveAck{cumulativeTSNAck: base + uint32(adv), advertisedReceiverWindowCredit: 1 << 20, gapAckBlocks: blocks}
	vassert(vDeliver(a, sack) == nil, "SACK ok")
	left1, left2 := 0, 0
	for i, sz := range sizes {
		if !acked(i) {
			if i%2 == 0 {
				left1 += sz
			} else {
				left2 += sz
			}
		}
	}
	vassert(s1.BufferedAmount() == uint64(left1), "the first stream keeps exactly the bytes of its own unacknowledged chunks")
	vassert(s2.BufferedAmount() == uint64(left2), "the second stream keeps exactly the bytes of its own unacknowledged chunks")
	vassert(uint64(a.BufferedAmount()) == s1.BufferedAmount()+s2.BufferedAmount(), "the streams' figures add up to the association's")
	vassert(fired1 == 0 || left1 == 0, "no callback before the stream reaches its threshold")
	vassert(fired2 == 0 || left2 == 0, "no callback before the stream reaches its threshold")
	all := &chunkSelectiveAck{cumulativeTSNAck: base + 5, advertisedReceiverWindowCredit: 1 << 20}
	vassert(vDeliver(a, all) == nil, "SACK ok")
	vassert(s1.BufferedAmount() == 0 && s2.BufferedAmount() == 0 && a.BufferedAmount() == 0, "everything acknowledged: every figure is exactly zero")
	vassert(fired1 == 1 && fired2 == 1, "each stream is told exactly once that it reached its threshold")
	vcover("end")
}

// vOutstandingBytes is the reference for a stream's buffered amount in scenarios where only
// that stream has data waiting to be sent: the user bytes waiting, plus the user bytes of
// its chunks that are in flight and not yet acknowledged.
func vOutstandingBytes(a *Association, sid uint16) uint64 {
	n := a.pendingQueue.getNumBytes()
	for i := 0; i < a.inflightQueue.size(); i++ {
		c := a.inflightQueue.chunks.At(i)
		if c.streamIdentifier == sid && !c.acked {
			n += len(c.userData)
		}
	}
	return uint64(n)
}

// C15.L6: a stream reset does not touch the accounting. Two messages (3 and 5 bytes) are
// written and the stream is closed; the peer receives everything and answers with a SACK
// and the reset response, which arrive in either order (and the SACK possibly only after
// the delayed-ack timer): after every packet the stream's buffered amount is exactly the
// bytes of its chunks not yet acknowledged, it ends at zero, agrees with the association's
// figure, and the low-threshold callback fires once, when the last byte is acknowledged.
func vh_C15_L6_reset_answer_does_not_touch_the_accounting() {
	il := vPick(2) == 1
	a, b := vPair(vAssocOpts{interleaving: il, pickTSN: true})
	s, err := a.OpenStream(1, PayloadTypeWebRTCBinary)
	vassert(err == nil, "open stream")
	calls := 0
	s.OnBufferedAmountLow(func() { calls++ })
	_, w1 := s.WriteSCTP(make([]byte, 3), PayloadTypeWebRTCBinary)
	_, w2 := s.WriteSCTP(make([]byte, 5), PayloadTypeWebRTCBinary)
	vassert(w1 == nil && w2 == nil, "writes accepted")
	vassert(s.Close() == nil, "close accepted")
	ackFirst := vPick(2) == 1
	for round := 0; round < 6; round++ {
		for _, raw := range vWriterWake(a) {
			vInbound(b, raw)
		}
		if round > 0 {
			vFireAck(b)
		}
		var first, second [][]byte
		for _, raw := range vWriterWake(b) {
			p := vDecode(raw)
			hasReconfig := false
			for _, c := range p.chunks {
				if _, ok := c.(*chunkReconfig); ok {
					hasReconfig = true
				}
			}
			if hasReconfig != ackFirst {
				first = append(first, raw)
			} else {
				second = append(second, raw)
			}
		}
		for _, raw := range append(first, second...) {
			vInbound(a, raw)
			vassert(s.BufferedAmount() == vOutstandingBytes(a, 1), "the buffered amount is exactly the bytes not yet acknowledged, whatever else the packet carried")
			vassert(uint64(a.BufferedAmount()) == s.BufferedAmount(), "stream and association figures agree")
			vassert(calls == 0 || s.BufferedAmount() == 0, "no callback before the threshold is reached")
		}
	}
	vassert(len(a.reconfigs) == 0, "the reset was answered")
	vassert(s.BufferedAmount() == 0 && a.BufferedAmount() == 0, "everything acknowledged: zero")
	vassert(calls == 1, "the low-threshold callback fires once, for the last downward crossing")
	vcover("end")
}

// C15.L7: a blocking write that fails gives back exactly its own bytes. In blocking-write
// mode 4 bytes are in flight and 2 bytes are waiting (the gate is closed); a third write
// of 3 bytes parks behind the gate; while it is parked a SACK acknowledges the 4 bytes in
// flight, and then the write deadline passes, so the parked write fails. Afterwards the
// stream's buffered amount is exactly the 2 bytes still waiting: the acknowledgement that
// arrived while the write was parked is not undone by the failed write's roll-back.
func vh_C15_L7_failed_blocking_write_keeps_concurrent_release() {
	vStub("setNewRTT")
	vGoLive = true
	a, _ := vNewAssocOpts(vAssocOpts{blockWrite: true, interleaving: vPick(2) == 1})
	s, err := a.OpenStream(1, PayloadTypeWebRTCBinary)
	vassert(err == nil, "open stream")
	s.SetReliabilityParams(vPick(2) == 1, ReliabilityTypeReliable, 0)
	_, w1 := s.WriteSCTP(make([]byte, 4), PayloadTypeWebRTCBinary)
	a.cwnd, a.rwnd = 1<<20, 1<<20
	vassert(w1 == nil && len(vWriterPass(a)) == 1 && a.inflightQueue.size() == 1, "4 bytes in flight")
	_, w2 := s.WriteSCTP(make([]byte, 2), PayloadTypeWebRTCBinary)
	vassert(w2 == nil && a.writePending, "2 bytes waiting, the gate is closed")
	base := a.cumulativeTSNAckPoint
	calls := 0
	s.SetBufferedAmountLowThreshold(6) // 4 + 2 + 3 (the parked write is counted while it waits) -> 5 crosses it
	s.OnBufferedAmountLow(func() { calls++ })
	vGo(func() {
		vSleep(50 * time.Millisecond) // the third write is parked by now
		_ = vDeliver(a, &chunkSelectiveAck{cumulativeTSNAck: base + 1, advertisedReceiverWindowCredit: 1 << 20})
		_ = s.SetWriteDeadline(time.Now().Add(-time.Second))
	})
	n, w3 := s.WriteSCTP(make([]byte, 3), PayloadTypeWebRTCBinary)
	vassert(w3 != nil && n == 0, "the parked write fails at its deadline")
	vassert(a.inflightQueue.size() == 0, "the acknowledgement was processed while the write was parked")
	vassert(s.BufferedAmount() == 2, "the buffered amount is exactly the bytes still waiting: a failed write gives back its own bytes only")
	vassert(s.BufferedAmount() == vOutstandingBytes(a, 1) && a.BufferedAmount() == 2, "stream and association figures agree")
	vassert(calls == 1, "the downward crossing made by the acknowledgement was reported once")
	a.closeWriteLoopOnce.Do(func() { close(a.closeWriteLoopCh) })
	vcover("end")
}

// C19.L4b: Karn's rule with real retransmissions. One chunk is outstanding; optionally the
// peer closes its window (a SACK with a_rwnd 0 that acknowledges nothing); then the chunk is
// really sent again - after a T3 expiry (with a closed window it leaves as the zero-window
// probe) or as the tail-loss probe - and finally acknowledged: whenever it was on the wire
// twice its acknowledgement yields no round-trip sample; when it was sent once it does.
func vh_C19_L4_karn_after_real_retransmission() {
	f := vInFlight(1, false)
	a := f.a
	first := f.base + 1
	next := a.myNextTSN
	if vPick(2) == 1 {
		vassert(vDeliver(a, &chunkSelectiveAck{cumulativeTSNAck: f.base, advertisedReceiverWindowCredit: 0}) == nil, "SACK ok")
		vassert(a.RWND() == 0, "the peer's window is closed")
	}
	_ = vWriterWake(a)
	switch vPick(3) {
	case 1:
		a.t3RTX.start(1000)
		vassert(vFireRtx(a, a.t3RTX), "T3 expires")
	case 2:
		a.onPTOTimer()
	}
	onWire := 1
	for _, raw := range vWriterWake(a) {
		for _, c := range vDecode(raw).chunks {
			if d, ok := c.(*chunkPayloadData); ok && d.tsn == first {
				onWire++
			}
		}
	}
	vassert(onWire <= 2, "at most one retransmission per expiry")
	vassert(vDeliver(a, &chunkSelectiveAck{cumulativeTSNAck: first, advertisedReceiverWindowCredit: 1 << 20}) == nil, "SACK ok")
	sampled := a.minTSN2MeasureRTT == next
	vassert(sampled == (onWire == 1), "a round-trip sample is taken from the acknowledgement iff the chunk was on the wire exactly once")
	vobserve("onWire", uint64(onWire))
	vcover("end")
}

// C15.L8: an acknowledgement for a stream that no longer exists does not starve the others.
// Six streams each have a message in flight; the first of them is then removed (its peer
// reset it); one SACK acknowledges everything: every remaining stream is released exactly
// its own bytes and returns to zero, and each is told once. (The per-stream release walks a
// Go map; the scenario is run four times so that the native run meets the order the engine
// explored with near certainty.)
func vh_C15_L8_ack_for_a_removed_stream_does_not_starve_the_others() {
	vStub("setNewRTT")
	for rep := 0; rep < 4; rep++ {
		a, _ := vNewAssocOpts(vAssocOpts{fixedTSN: true})
		var streams []*Stream
		fired := make([]int, 6)
		for i := 0; i < 6; i++ {
			s, err := a.OpenStream(uint16(i+1), PayloadTypeWebRTCBinary)
			vassert(err == nil, "open stream")
			idx := i
			s.OnBufferedAmountLow(func() { fired[idx]++ })
			_, werr := s.WriteSCTP(make([]byte, 1+i), PayloadTypeWebRTCBinary)
			vassert(werr == nil, "write accepted")
			streams = append(streams, s)
		}
		a.cwnd, a.rwnd = 1<<20, 1<<20
		budget, consumed := int64(0), false
		a.lock.Lock()
		chunks, _ := a.popPendingDataChunksToSend(&budget, &consumed)
		a.unregisterStream(streams[0], io.EOF) // the peer reset this stream while its data was still unacknowledged
		a.lock.Unlock()
		vassert(len(chunks) == 6, "six chunks in flight")
		base := a.cumulativeTSNAckPoint
		vassert(vDeliver(a, &chunkSelectiveAck{cumulativeTSNAck: base + 6, advertisedReceiverWindowCredit: 1 << 20}) == nil, "SACK ok")
		for i := 1; i < 6; i++ {
			vassert(streams[i].BufferedAmount() == 0, "every remaining stream is released its own acknowledged bytes, whatever happened to another stream")
			vassert(fired[i] == 1, "and is told once that it reached its threshold")
		}
		vassert(a.BufferedAmount() == 0, "the association figure is zero")
	}
	vcover("end")
}

// C15.L9: the low-threshold callback never runs under a stream or association lock, from
// whichever call it is made. Data is buffered; the application moves the threshold (to any
// value: below, at or above what is buffered), registers another handler, and data is
// acknowledged: whenever the handler is invoked - by an acknowledgement or by a setter that
// chooses to notify at once - no internal lock is held, so it may call back into the stream.
func vh_C15_L9_callback_is_never_invoked_under_a_lock() {
	f := vInFlight(2, false) // 1 + 2 bytes buffered
	a, s := f.a, f.s
	calls, locked := 0, false
	h := func() {
		calls++
		if vMutexHeldNative(&s.lock) || vRWMutexHeldNative(&a.lock) {
			locked = true
		}
	}
	s.SetBufferedAmountLowThreshold(uint64(vPick(5)))
	s.OnBufferedAmountLow(h)
	s.SetBufferedAmountLowThreshold(uint64(vPick(5))) // lowered, unchanged or raised, to below / at / above the amount buffered
	vassert(!locked, "a handler invoked when the threshold is changed runs without internal locks held")
	s.OnBufferedAmountLow(h)
	vassert(!locked, "a handler invoked when it is registered runs without internal locks held")
	vassert(vDeliver(a, &chunkSelectiveAck{cumulativeTSNAck: f.base + 2, advertisedReceiverWindowCredit: 1 << 20}) == nil, "SACK ok")
	vassert(!locked, "a handler invoked by an acknowledgement runs without internal locks held")
	vassert(s.BufferedAmount() == 0 && calls <= 2, "accounting unaffected; at most one notification per event")
	vassert(vLocksFree(a, s), "no lock is left held")
	vcover("end")
}

// C15.L10: a failed blocking write under concurrent calls leaves the accounting exact (= C20.L9).
func vh_C15_L10_failed_parked_write_under_concurrent_calls() {
	vh_C20_L9_parked_write_fails_while_others_go_on()
}

// C15.L11: the accounting follows the bytes, not the stream object's life cycle. Two messages
// are in flight on a stream with a low-threshold handler installed (threshold below what is
// buffered); then one of: (0) the application closes the stream and opens the same
// identifier again before the acknowledgement arrives - it gets the same stream, which is
// then released its bytes; (1) the peer resets its direction of the stream - no callback
// fires (nothing was released) and none under a lock, the association-level figure is still
// pending plus in-flight bytes, and an accepted later write is counted by both figures.
func vh_C15_L11_stream_life_cycle_keeps_the_accounting() {
	f := vInFlight(2, false)
	a, s := f.a, f.s
	calls, locked := 0, false
	s.SetBufferedAmountLowThreshold(1)
	s.OnBufferedAmountLow(func() {
		calls++
		if vMutexHeldNative(&s.lock) || vRWMutexHeldNative(&a.lock) {
			locked = true
		}
	})
	switch vPick(2) {
	case 0:
		vassert(s.Close() == nil, "close accepted")
		again, err := a.OpenStream(1, PayloadTypeWebRTCBinary)
		vassert(err == nil && again == s, "opening the identifier of a stream that is still closing returns that stream")
		vassert(vDeliver(a, &chunkSelectiveAck{cumulativeTSNAck: f.base + 2, advertisedReceiverWindowCredit: 1 << 20}) == nil, "SACK ok")
		vassert(s.BufferedAmount() == 0 && calls == 1, "the stream that wrote the bytes is released them and told once")
	case 1:
		s.onInboundStreamReset() // the peer's outgoing reset of this stream has been performed
		a.lock.Lock()
		a.unregisterStream(s, io.EOF)
		a.lock.Unlock()
		vassert(calls == 0, "nothing was acknowledged: no downward crossing, no callback")
		vassert(a.BufferedAmount() == f.total, "the association-level figure is pending plus in-flight user bytes, whichever streams are still registered")
	}
	vassert(!locked, "the callback never runs under an internal lock")
	vassert(vLocksFree(a, s), "no lock is left held")
	vcover("end")
}
