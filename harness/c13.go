//go:build verif

package sctp

import (
	"encoding/binary"
	"errors"
)

// C13 — checksum rules. CRC32c itself is an uninterpreted function in the engine
// (real CRC in native replays); the subject is the accept/emit decision logic.

// vChecksumPacket builds header + one 4-byte chunk of the given type with the
// checksum field in one of four modes: 0 correct, 1 zero, 2 wrong (the correct one with a byte
// flipped), 3 wrong and almost zero (one non-zero byte).
func vChecksumPacket(ctype chunkType, mode int) []byte {
	raw := nondetBytes(packetHeaderSize + 4)
	raw[12], raw[14], raw[15] = byte(ctype), 0, 4
	switch mode {
	case 0:
		vFixChecksum(raw)
	case 1:
		raw[8], raw[9], raw[10], raw[11] = 0, 0, 0, 0
		vassume(generatePacketChecksum(raw) != 0) // a true CRC of zero would make the zero field "correct"
	case 2:
		vFixChecksum(raw)
		flip := nondetU8()
		vassume(flip != 0)
		raw[8+vPick(4)] ^= flip
		vassume(binary.LittleEndian.Uint32(raw[8:]) != 0)
	case 3:
		// wrong and almost zero: three bytes of the field are zero, one is not (a zero-checksum
		// packet with one corrupted byte in the field). The field does not depend on the CRC,
		// so a counterexample replays natively unless the true CRC happens to be that value.
		raw[8], raw[9], raw[10], raw[11] = 0, 0, 0, 0
		b := nondetU8()
		vassume(b != 0)
		raw[8+vPick(4)] = b
		vassume(generatePacketChecksum(raw) != binary.LittleEndian.Uint32(raw[8:]))
	}
	return raw
}

var vChecksumKinds = []chunkType{ctInit, ctCookieEcho, ctCookieAck, ctSack, ctPayloadData, ctShutdownAck, ctAbort}

// C13.L1: acceptance matrix.
func vh_C13_L1_acceptance() {
	a, _ := vNewAssoc()
	a.recvZeroChecksum = nondetBool()
	a.sendZeroChecksum = nondetBool() // what the peer accepts is irrelevant to what this side accepts
	ctype := vChecksumKinds[vPick(len(vChecksumKinds))]
	mode := vPick(4)
	raw := vChecksumPacket(ctype, mode)
	_, err := a.unmarshalPacket(raw)
	bad := err != nil && errors.Is(err, ErrChecksumMismatch)
	mandatory := ctype == ctInit || ctype == ctCookieEcho
	switch mode {
	case 0:
		vassert(!bad, "a correct CRC32c is never rejected for its checksum")
	case 1:
		vassert(bad == (!a.recvZeroChecksum || mandatory), "zero checksum accepted only if advertised and never for INIT / COOKIE-ECHO packets")
	case 2:
		vassert(bad, "a non-zero wrong checksum is always rejected")
	case 3:
		vassert(bad, "a wrong checksum is rejected also when three of its four bytes are zero")
	}
	vobserve("bad", vb2u(bad))
	vcover("end")
}

// C13.L4: a packet rejected for its checksum has no effect on the association.
func vh_C13_L4_rejected_has_no_effect() {
	a, conn := vNewAssoc()
	a.recvZeroChecksum = nondetBool()
	a.sendZeroChecksum = nondetBool()
	a.setState(uint32(vPick(8)))
	ctype := vChecksumKinds[vPick(len(vChecksumKinds))]
	raw := vChecksumPacket(ctype, 2+vPick(2))
	// whatever the previous packet left behind in the per-packet context
	a.immediateAckTriggered, a.delayedAckTriggered = nondetBool(), nondetBool()
	state, cum, ackPt, nextTSN := a.getState(), a.peerLastTSN(), a.cumulativeTSNAckPoint, a.myNextTSN
	err := a.handleInbound(raw)
	vassert(err == nil, "a bad packet does not stop the read loop")
	vassert(a.getState() == state && a.peerLastTSN() == cum && a.cumulativeTSNAckPoint == ackPt && a.myNextTSN == nextTSN, "state and sequence points unchanged")
	vassert(a.controlQueue.size() == 0 && a.pendingQueue.size() == 0 && a.inflightQueue.size() == 0, "nothing is queued in response")
	vassert(!a.willSendAbort && !a.willSendShutdown && !a.willSendShutdownAck && !a.willSendShutdownComplete && !a.willSendForwardTSN, "no reply is requested")
	vassert(a.ackState == ackStateIdle && len(a.streams) == 0, "no acknowledgement scheduled, no stream created")
	vassert(conn.writes == 0, "nothing is written")
	vcover("end")
}

// C13.L2: emission. Zero checksum only when the peer accepts it and never with INIT or COOKIE-ECHO.
func vh_C13_L2_emission() {
	a, _ := vNewAssoc()
	a.sendZeroChecksum = nondetBool()
	var c chunk
	mandatory := false
	switch vPick(5) {
	case 0:
		c = &chunkCookieAck{}
	case 1:
		c = &chunkSelectiveAck{cumulativeTSNAck: nondetU32(), advertisedReceiverWindowCredit: nondetU32()}
	case 2:
		c = &chunkPayloadData{tsn: nondetU32(), userData: nondetBytes(2), beginningFragment: true, endingFragment: true}
	case 3:
		c = &chunkCookieEcho{cookie: nondetBytes(4)}
		mandatory = true
	case 4:
		init := &chunkInit{}
		init.initiateTag, init.initialTSN = 1+nondetU32()%1000, nondetU32()
		init.numOutboundStreams, init.numInboundStreams = 10, 10
		init.advertisedReceiverWindowCredit = 1500
		c = init
		mandatory = true
	}
	chunks := []chunk{c}
	if vPick(2) == 1 && !mandatory {
		chunks = append(chunks, &chunkCookieAck{})
	}
	raw, err := a.marshalPacket(a.createPacket(chunks))
	vassert(err == nil, "packet marshals")
	if err != nil {
		return
	}
	field := binary.LittleEndian.Uint32(raw[8:])
	if a.sendZeroChecksum && !mandatory {
		vassert(field == 0, "zero checksum is emitted once the peer declared it acceptable")
	} else {
		vassert(field == generatePacketChecksum(raw), "a correct CRC32c is emitted otherwise, and always with INIT / COOKIE-ECHO")
	}
	vobserve("len", uint64(len(raw)))
	vcover("end")
}

// vRawParam is a parameter given as wire bytes (header included).
type vRawParam struct{ b []byte }

func (p *vRawParam) marshal() ([]byte, error) { return p.b, nil }
func (p *vRawParam) length() int              { return len(p.b) }

// C13.L3b: what the peer accepts is learned only from a well-formed Zero Checksum
// Acceptable parameter naming the DTLS method. A server receives an INIT whose parameter
// 0x8001 has any length 4..8 and any value bytes, before or after the supported-extensions
// parameter: it sends zero checksums (INIT-ACK included) exactly when the parameter is
// complete and its method identifier is 1.
func vh_C13_L3_learned_only_from_wellformed_parameter() {
	b := vHandshakeEndpoint(vPick(2) == 1, vPick(2) == 1)
	b.initServer()
	prior := vPick(2) == 1
	if prior {
		// an earlier INIT (a previous incarnation of the peer, or an INIT that was later
		// superseded) did declare acceptance: what is learned must come from the latest INIT only
		prev := &chunkInit{}
		prev.initiateTag, prev.initialTSN = 1+nondetU32()%0xfffffffe, nondetU32()
		prev.numOutboundStreams, prev.numInboundStreams = 10, 10
		prev.advertisedReceiverWindowCredit = 1500
		setSupportedExtensions(&prev.chunkInitCommon, false)
		prev.params = append(prev.params, &paramZeroChecksumAcceptable{edmid: dtlsErrorDetectionMethod})
		rawPrev, perr := (&packet{sourcePort: 5000, destinationPort: 5000, chunks: []chunk{prev}}).marshal(true)
		vassert(perr == nil, "INIT marshals")
		vInbound(b, rawPrev)
		vassert(b.sendZeroChecksum, "acceptance declared by the earlier INIT")
		_ = vWriterWake(b)
	}
	init := &chunkInit{}
	init.initiateTag, init.initialTSN = 1+nondetU32()%0xfffffffe, nondetU32()
	init.numOutboundStreams, init.numInboundStreams = 10, 10
	init.advertisedReceiverWindowCredit = 1500
	setSupportedExtensions(&init.chunkInitCommon, vPick(2) == 1)
	l := 4 + vPick(5)
	val := nondetBytes(l - 4)
	zp := &vRawParam{b: append([]byte{0x80, 0x01, 0, byte(l)}, val...)}
	if vPick(2) == 1 {
		init.params = append([]param{zp}, init.params...)
	} else {
		init.params = append(init.params, zp)
	}
	raw, err := (&packet{sourcePort: 5000, destinationPort: 5000, chunks: []chunk{init}}).marshal(true)
	vassert(err == nil, "INIT marshals")
	vInbound(b, raw)
	wellFormed := l == 8 && val[0] == 0 && val[1] == 0 && val[2] == 0 && val[3] == 1
	if vDecode(raw) == nil {
		// a truncated parameter can make the whole INIT undecodable: it is dropped without effect
		vassert(l < 8, "a complete parameter never makes the INIT undecodable")
		vassert(b.sendZeroChecksum == prior, "an undecodable INIT changes nothing")
		vcover("end")
		return
	}
	vassert(b.sendZeroChecksum == wellFormed, "zero checksums are sent exactly when the latest INIT declared them acceptable with the DTLS method")
	for _, out := range vWriterWake(b) {
		vassert(len(out) >= 12, "reply has a header")
		field := binary.LittleEndian.Uint32(out[8:])
		if !wellFormed {
			vassert(field == generatePacketChecksum(out), "replies carry a correct CRC32c unless acceptance was declared")
		}
	}
	vobserve("wf", vb2u(wellFormed))
	vcover("end")
}

// C13.L2b: the emission rule on every path by which the writer puts a packet on the wire
// (each kind of packet has its own gather function): ABORT, SACK, SHUTDOWN, SHUTDOWN-ACK,
// SHUTDOWN-COMPLETE, FORWARD-TSN, DATA, RE-CONFIG, HEARTBEAT. Whatever this side accepts,
// the checksum is zero exactly when the *peer* declared zero checksums acceptable.
func vh_C13_L2_every_gather_path() {
	a, _ := vNewAssoc()
	a.sendZeroChecksum = nondetBool()
	a.recvZeroChecksum = nondetBool()
	cum := a.peerLastTSN()
	want := 1
	switch vPick(9) {
	case 0:
		a.lock.Lock()
		a.willSendAbort = true
		a.willSendAbortCause = &errorCauseUserInitiatedAbort{upperLayerAbortReason: nondetBytes(2)}
		a.lock.Unlock()
		a.awakeWriteLoop()
	case 1:
		vassert(vDeliver(a, vDataChunk(a, cum+2, 1, false, 1)) == nil, "DATA ok") // a gap: SACK at once
	case 2:
		a.setState(shutdownSent)
		a.lock.Lock()
		a.willSendShutdown = true
		a.lock.Unlock()
		a.awakeWriteLoop()
	case 3:
		a.setState(shutdownAckSent)
		a.lock.Lock()
		a.willSendShutdownAck = true
		a.lock.Unlock()
		a.awakeWriteLoop()
	case 4:
		a.lock.Lock()
		a.willSendShutdownComplete = true
		a.lock.Unlock()
		a.awakeWriteLoop()
	case 5:
		a.useForwardTSN = true
		a.lock.Lock()
		a.willSendForwardTSN = true
		a.advancedPeerTSNAckPoint = a.cumulativeTSNAckPoint + 1
		a.lock.Unlock()
		a.awakeWriteLoop()
		want = 0 // nothing to skip is in flight: the chunk may be omitted
	case 6:
		s, _ := a.OpenStream(1, PayloadTypeWebRTCBinary)
		_, werr := s.WriteSCTP(nondetBytes(2), PayloadTypeWebRTCBinary)
		vassert(werr == nil, "write accepted")
	case 7:
		s, _ := a.OpenStream(1, PayloadTypeWebRTCBinary)
		vassert(s.Close() == nil, "close accepted") // RE-CONFIG
	case 8:
		a.ActiveHeartbeat()
	}
	pkts := vWriterWake(a)
	vassert(len(pkts) >= want, "the packet goes out")
	for _, raw := range pkts {
		vassert(len(raw) >= 12, "packet has a header")
		field := binary.LittleEndian.Uint32(raw[8:])
		if a.sendZeroChecksum {
			vassert(field == 0, "zero checksum once the peer declared it acceptable")
		} else {
			vassert(field == generatePacketChecksum(raw), "a correct CRC32c otherwise, whatever this side itself accepts")
		}
	}
	vobserve("n", uint64(len(pkts)))
	vcover("end")
}

// C13.L3c: the same on the client side. A client in COOKIE-WAIT receives an INIT ACK whose
// Zero Checksum Acceptable parameter has any length 4..8 and any value bytes: it sends zero
// checksums afterwards exactly when the parameter is complete and names the DTLS method
// (COOKIE ECHO itself always carries a correct CRC32c).
func vh_C13_L3_learned_from_init_ack() {
	a := vHandshakeEndpoint(vPick(2) == 1, vPick(2) == 1)
	a.initClient()
	_ = vWriterWake(a)
	vassert(a.getState() == cookieWait, "INIT sent")
	ack := &chunkInitAck{}
	ack.initiateTag, ack.initialTSN = 1+nondetU32()%0xfffffffe, nondetU32()
	ack.numOutboundStreams, ack.numInboundStreams = 10, 10
	ack.advertisedReceiverWindowCredit = 1 << 16
	setSupportedExtensions(&ack.chunkInitCommon, vPick(2) == 1)
	l := 4 + vPick(5)
	val := nondetBytes(l - 4)
	zp := &vRawParam{b: append([]byte{0x80, 0x01, 0, byte(l)}, val...)}
	ack.params = append([]param{&paramStateCookie{cookie: nondetBytes(4)}, zp}, ack.params...)
	raw, err := (&packet{sourcePort: 5000, destinationPort: 5000, verificationTag: a.myVerificationTag, chunks: []chunk{ack}}).marshal(true)
	vassert(err == nil, "INIT ACK marshals")
	decodable := vDecode(raw) != nil
	vInbound(a, raw)
	wellFormed := l == 8 && val[0] == 0 && val[1] == 0 && val[2] == 0 && val[3] == 1
	if !decodable {
		vassert(l < 8, "a complete parameter never makes the INIT ACK undecodable")
		vassert(a.getState() == cookieWait && !a.sendZeroChecksum, "an undecodable INIT ACK changes nothing")
		vcover("end")
		return
	}
	vassert(a.getState() == cookieEchoed, "the INIT ACK is accepted")
	vassert(a.sendZeroChecksum == wellFormed, "zero checksums are sent exactly when the INIT ACK declared them acceptable with the DTLS method")
	for _, out := range vWriterWake(a) {
		vassert(len(out) >= 12 && binary.LittleEndian.Uint32(out[8:]) == generatePacketChecksum(out), "the COOKIE ECHO carries a correct CRC32c whatever was negotiated")
	}
	vcover("end")
}

// C13.L4b: a handshake chunk that is discarded because of the association's state changes
// nothing about the checksum negotiation either (= C04.L2).
func vh_C13_L4_discarded_handshake_chunk_changes_nothing() { vh_C04_L2_stale_chunks_ignored() }

// C13.L4c: an INIT ACK that does not belong to this association (its ports do not match)
// teaches nothing. A client in COOKIE-WAIT receives such an INIT ACK carrying Zero Checksum
// Acceptable (and a cookie, and any extension list): it is discarded whole - the state, what
// the peer is believed to accept as checksum and the negotiated framing are as before, and no
// COOKIE ECHO is sent. (The peer's tag and initial TSN are overwritten before the port check
// on the pinned tree and set again by the INIT ACK that is honoured; not part of this property.)
func vh_C13_L4_misdirected_init_ack_teaches_nothing() {
	a := vHandshakeEndpoint(vPick(2) == 1, vPick(2) == 1)
	a.initClient()
	_ = vWriterWake(a)
	vassert(a.getState() == cookieWait, "INIT sent")
	ack := &chunkInitAck{}
	ack.initiateTag, ack.initialTSN = 1+nondetU32()%0xfffffffe, nondetU32()
	ack.numOutboundStreams, ack.numInboundStreams = 10, 10
	ack.advertisedReceiverWindowCredit = 1 << 16
	setSupportedExtensions(&ack.chunkInitCommon, nondetBool())
	ack.params = append(ack.params, &paramZeroChecksumAcceptable{edmid: dtlsErrorDetectionMethod}, &paramStateCookie{cookie: nondetBytes(4)})
	src, dst := nondetU16(), nondetU16()
	vassume(src != a.destinationPort || dst != a.sourcePort)
	raw, err := (&packet{sourcePort: src, destinationPort: dst, verificationTag: a.myVerificationTag, chunks: []chunk{ack}}).marshal(true)
	vassert(err == nil, "INIT ACK marshals")
	sz, il := a.sendZeroChecksum, a.peerInterleaving
	vInbound(a, raw)
	vassert(a.getState() == cookieWait, "the state is unchanged")
	vassert(a.sendZeroChecksum == sz, "what the peer accepts as checksum is not learned from a packet that is discarded")
	vassert(a.peerInterleaving == il, "nor are its capabilities")
	vassert(len(vWriterWake(a)) == 0 && a.storedCookieEcho == nil, "no COOKIE ECHO is sent")
	vcover("end")
}
