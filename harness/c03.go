//go:build verif

package sctp

// C03 — no inbound bytes can crash, hang or corrupt an endpoint.

// C03.L1: the packet decoder and everything below it, on an arbitrary buffer of
// each length in the bound: no runtime panic is reachable (index, slice bounds,
// nil dereference, failed type assertion, division by zero are VCs on every path),
// every loop terminates within the unwinding bound, and on success the chunk
// lengths add up to the buffer length.
func vDecodeLens() []int {
	if vtier() == 0 {
		return []int{0, 11, 12, 15, 16, 18, 20, 24}
	}
	return []int{0, 3, 11, 12, 13, 15, 16, 17, 18, 19, 20, 22, 24, 28}
}

func vh_C03_L1_decode() {
	vbound(12)
	lens := vDecodeLens()
	n := lens[vPick(len(lens))]
	raw := nondetBytes(n)
	vBoundSackCounts(raw)
	vFixChecksum(raw)
	p := &packet{}
	vMustNotBlock("decoding an inbound packet returns (no input makes a decoder loop for ever)")
	err := p.unmarshal(false, raw)
	vMayBlock()
	if err == nil {
		total := packetHeaderSize
		for _, c := range p.chunks {
			vl := c.valueLength()
			total += chunkHeaderSize + vl + getPadding(vl)
		}
		vassert(total == n, "accepted packet: padded chunk lengths add up to the buffer length")
		vassert(n >= packetHeaderSize, "accepted packet has a full common header")
		// accepted chunks pass through check() without panicking
		for _, c := range p.chunks {
			_, _ = c.check()
		}
		vobserve("nchunks", uint64(len(p.chunks)))
		vcover("accepted")
	} else {
		vcover("rejected")
	}
}

// C03.L1b: the decoder of each chunk type on its own. One chunk of each known type with a
// value of every length 0..20 (0..12 for ABORT, ERROR and RE-CONFIG; thorough: 0..28, 0..16) and arbitrary content,
// alone in a packet with a valid checksum: no runtime panic on any path (this reaches the
// length guards of each per-type decoder, which arbitrary short buffers of L1 only reach
// for the first few types).
var vAllChunkTypes = []chunkType{ctPayloadData, ctIData, ctInit, ctInitAck, ctSack, ctHeartbeat, ctHeartbeatAck, ctAbort, ctShutdown, ctShutdownAck, ctError, ctCookieEcho, ctCookieAck, ctCWR, ctShutdownComplete, ctReconfig, ctForwardTSN, ctIForwardTSN}

func vh_C03_L1_decode_each_chunk_type() {
	vbound(24)
	t := vAllChunkTypes[vPick(len(vAllChunkTypes))]
	maxLen := 21
	if vtier() > 0 {
		maxLen = 29 // 41 did not finish in 15 minutes (INIT parameter lists, stream lists)
	}
	switch t {
	case ctHeartbeat, ctHeartbeatAck:
		maxLen = 21 // the trailing-zero check walks the value byte by byte (one more unwinding per byte, nothing new)
	case ctAbort, ctError, ctReconfig:
		maxLen = 13 // nested cause / parameter lists: every further word multiplies the paths
		if vtier() > 0 {
			maxLen = 17
		}
	}
	vl := vPick(maxLen)
	n := packetHeaderSize + chunkHeaderSize + vl + getPadding(vl)
	raw := nondetBytes(n)
	raw[12] = byte(t)
	raw[14], raw[15] = 0, byte(chunkHeaderSize+vl)
	vBoundSackCounts(raw)
	vFixChecksum(raw)
	p := &packet{}
	vMustNotBlock("decoding an inbound packet returns (no input makes a decoder loop for ever)")
	err := p.unmarshal(false, raw)
	vMayBlock()
	if err == nil {
		vassert(len(p.chunks) == 1, "one chunk")
		for _, c := range p.chunks {
			_, _ = c.check()
		}
		vcover("accepted")
	} else {
		vcover("rejected")
	}
}

// C03.L1c: the two 16-bit counts of a SACK (gap blocks, duplicate TSNs) at the edges of their
// range. The arbitrary-buffer obligations above keep both counts below 6 (the decoder
// allocates from them before it checks them, every value would be a path of its own); here
// they are taken from a set that contains every pair whose sum, or whose size in bytes,
// wraps in 16 bits (0x8000+0x8000, 0xffff+1, 0xc000+0x4000, 4*0x4000, ...), with the rest of
// the chunk arbitrary and a value of 12..24 bytes: no runtime panic, and a SACK is accepted
// only when it really carries as many blocks as it announces.
var vSackEdgeCounts = []uint16{0, 1, 2, 3, 0x3fff, 0x4000, 0x4001, 0x4002, 0x7fff, 0x8000, 0x8001, 0xbfff, 0xc000, 0xfffd, 0xfffe, 0xffff}

func vh_C03_L1_sack_counts_at_the_edges() {
	g := vSackEdgeCounts[vPick(len(vSackEdgeCounts))]
	d := vSackEdgeCounts[vPick(len(vSackEdgeCounts))]
	vl := 12 + 4*vPick(4)
	n := packetHeaderSize + chunkHeaderSize + vl
	raw := nondetBytes(n)
	raw[12] = byte(ctSack)
	raw[14], raw[15] = 0, byte(chunkHeaderSize+vl)
	raw[24], raw[25] = byte(g>>8), byte(g)
	raw[26], raw[27] = byte(d>>8), byte(d)
	vFixChecksum(raw)
	p := &packet{}
	vMustNotBlock("decoding an inbound packet returns (no input makes a decoder loop for ever)")
	err := p.unmarshal(false, raw)
	vMayBlock()
	if err == nil {
		vassert(len(p.chunks) == 1, "one chunk")
		sack, ok := p.chunks[0].(*chunkSelectiveAck)
		vassert(ok, "a SACK")
		vassert(len(sack.gapAckBlocks) == int(g) && len(sack.duplicateTSN) == int(d), "the decoded lists have the announced lengths")
		vassert(12+4*(int(g)+int(d)) == vl, "a SACK is accepted only when its length matches the counts it announces")
		vcover("accepted")
	} else {
		vcover("rejected")
	}
}

// C03.L2: an arbitrary byte string (valid checksum, bounded length) delivered through
// handleInbound to an association in any of its 8 states, with one chunk in flight and
// one message held for reading: no runtime panic, the read loop is told to stop only by
// an ABORT chunk, unacknowledged data is released only by an acknowledgement that names
// it, and data already received stays readable.
func vh_C03_L2_arbitrary_packet_any_state() {
	vbound(12)
	f := vInFlight(1, false)
	a := f.a
	cum := a.peerLastTSN()
	vassert(vDeliver(a, vDataChunk(a, cum+1, 9, false, 2)) == nil, "inbound data")
	held := a.streams[9]
	a.setState(uint32(vPick(8)))
	lens := []int{12, 16, 20} // 12: a common header and no chunk at all
	if vtier() > 0 {
		lens = []int{12, 16, 20, 24}
	}
	n := lens[vPick(len(lens))]
	raw := nondetBytes(n)
	vBoundSackCounts(raw)
	vFixChecksum(raw)
	hasAbort := false
	for off := packetHeaderSize; off+4 <= n; off += 4 {
		if raw[off] == byte(ctAbort) {
			hasAbort = true
		}
	}
	err := a.handleInbound(raw)
	if err != nil {
		vassert(hasAbort, "only an ABORT chunk makes the read loop stop")
	}
	// the chunk in flight (TSN base+1) is released only if something acknowledged it
	if f.chunks[0].acked || a.inflightQueue.size() == 0 {
		vassert(a.cumulativeTSNAckPoint != f.base || f.chunks[0].acked, "in-flight data leaves the queue only through an acknowledgement")
	}
	vassert(!vBefore(a.cumulativeTSNAckPoint, f.base), "the cumulative ack point never moves backwards")
	// data already received stays readable unless this very packet reset the stream or closed the association
	if held.readErr == nil && a.getState() != closed {
		vassert(held.getNumBytesInReassemblyQueue() == 2, "a message already received is unaffected")
	}
	vassert(vLocksFree(a, held), "no lock is left held by the handlers")
	vcover("end")
}

// C03.L4: forward-TSN sanity. FORWARD-TSN / I-FORWARD-TSN with a symbolic new cumulative
// TSN and one stream entry (symbolic identifier and sequence) against an association that
// holds one complete, unread message; the accept backlog may be full. No panic; a
// forward-TSN at or behind the cumulative point changes nothing but requests an
// immediate SACK; otherwise the cumulative point becomes exactly the new value; the
// complete message stays readable.
func vh_C03_L4_forward_tsn_sanity() {
	il := vPick(2) == 1
	a, _ := vNewAssocOpts(vAssocOpts{interleaving: il})
	a.useForwardTSN, a.useIForwardTSN = !il, il
	// bit positions concrete, word positions symbolic (see vh_C05_bmc_gaps): cum = 64k + r
	a.payloadQueue.init(nondetU32()&^63 | []uint32{62, 59, 63}[vPick(3)])
	cum := a.peerLastTSN()
	vassert(vDeliver(a, vDataChunk(a, cum+1, 4, false, 2)) == nil, "inbound data")
	cum = a.peerLastTSN()
	held := a.streams[4]
	// optionally a chunk held out of order above the cumulative point (a hole below it)
	above := uint32(0)
	if vPick(2) == 1 {
		above = []uint32{3, 10, 14, 70}[vPick(4)]
		vassert(vDeliver(a, vDataChunk(a, cum+above, 7, true, 1)) == nil, "out-of-order data")
		a.ackState = ackStateIdle
	}
	if vPick(2) == 1 {
		for len(a.acceptCh) < cap(a.acceptCh) { // the application is not accepting streams
			a.acceptCh <- held
		}
	}
	var newCum uint32
	if above != 0 {
		newCum = cum + []uint32{0, 1, 2, 6, 9, 66, 200}[vPick(7)]
	} else {
		newCum = nondetU32()
		vassume(newCum-cum != 1<<31)
	}
	si := nondetU16()
	var c chunk
	if il {
		c = &chunkIForwardTSN{newCumulativeTSN: newCum, streams: []chunkIForwardTSNStream{{identifier: si, unordered: nondetBool(), messageIdentifier: nondetU32()}}}
	} else {
		c = &chunkForwardTSN{newCumulativeTSN: newCum, streams: []chunkForwardTSNStream{{identifier: si, sequence: nondetU16()}}}
	}
	a.ackState = ackStateIdle
	vassert(vDeliver(a, c) == nil, "forward-TSN is never fatal")
	behind := !vBefore(cum, newCum)
	if behind {
		vassert(a.peerLastTSN() == cum, "a forward-TSN at or behind the cumulative point does not move it")
		vassert(a.ackState == ackStateImmediate, "but is answered with an immediate SACK")
	} else if above != 0 && cum+above == newCum+1 {
		vassert(a.peerLastTSN() == newCum+1, "the cumulative point moves to the new cumulative TSN and on over the contiguous TSN already received")
	} else {
		vassert(a.peerLastTSN() == newCum, "the cumulative point becomes the new cumulative TSN")
	}
	vassert(!a.willSendAbort, "no ABORT for a well-formed forward-TSN of the negotiated kind")
	if above != 0 && !behind && vBefore(newCum+1, cum+above) && newCum-cum < 1<<30 {
		// the forward-TSN stops below the chunk held out of order: it must stay tracked
		// (otherwise it would vanish from the gap report and be accepted twice)
		vassert(a.payloadQueue.hasChunk(cum+above) && a.payloadQueue.size() == 1, "a TSN received above the new cumulative point stays tracked")
	}
	if si != 4 {
		vassert(held.getNumBytesInReassemblyQueue() == 2 && held.reassemblyQueue.isReadable(), "a complete message on another stream stays readable")
	} else {
		vassert(held.getNumBytesInReassemblyQueue() == 2, "a complete message is not discarded by a skip")
	}
	vassert(vLocksFree(a, held), "no lock is left held")
	vcover("end")
}

// C03.L5: the reassembly queue fed with arbitrary chunks (any flags, sequence numbers, TSNs
// of one window, duplicates) never panics and keeps its accounting (= C11.L1).
func vh_C03_L5_reassembly_arbitrary_chunks() { vh_C11_L1_counter_exact() }

// C03.L6: a fragment that does not belong to a message cannot corrupt it. An I-DATA message
// is complete but still held (an earlier one is missing); then an arbitrary further fragment
// for the same stream and message identifier arrives (any fragment number, any flags, fresh
// TSN): the complete message is unchanged and is delivered intact once its turn comes.
func vh_C03_L6_stray_fragment_cannot_corrupt_complete_message() {
	r := newReassemblyQueue(3, 0)
	mid, base := nondetU32(), nondetU32()
	r.nextMID = mid
	unordered := vPick(2) == 1
	nf := 1 + vPick(2)
	held := vMakeMsg(3, true, unordered, 0, mid+1, base, nf, PayloadTypeWebRTCString)
	for _, c := range held.chunks {
		r.push(c)
	}
	stray := &chunkPayloadData{
		streamIdentifier: 3, iData: true, unordered: unordered, messageIdentifier: mid + 1,
		fragmentSequenceNumber: nondetU32(), beginningFragment: nondetBool(), endingFragment: nondetBool(),
		tsn: base + 100, userData: nondetBytes(2), payloadType: PayloadTypeWebRTCBinary,
	}
	stray.streamSequenceNumber = uint16(mid + 1)
	_, _ = r.pushWithError(stray)
	buf := make([]byte, 16)
	if !unordered {
		first := vMakeMsg(3, true, false, 0, mid, base-1, 1, PayloadTypeWebRTCBinary)
		r.push(first.chunks[0])
		n, _, err := r.read(buf)
		vassert(err == nil && n == 1, "the earlier message is read first")
	}
	n, ppi, err := r.read(buf)
	vassert(err == nil && n == nf && vBytesEq(buf[:n], held.bytes) && ppi == PayloadTypeWebRTCString, "the complete message is delivered exactly as it was received, whatever stray fragment followed it")
	vcover("end")
}

// C03.L7: bounded work per packet. A FORWARD-TSN (or I-FORWARD-TSN) that jumps as far ahead as
// serial arithmetic allows (2^31-1 TSNs), with a chunk held out of order below the new
// point, is processed with work proportional to the tracking window, not to the distance
// jumped: at most 200 000 interpreted instructions (clean tree: about 2 000).
func vh_C03_L7_far_forward_tsn_is_bounded_work() {
	il := vPick(2) == 1
	a, _ := vNewAssocOpts(vAssocOpts{interleaving: il, fixedTSN: true})
	a.useForwardTSN, a.useIForwardTSN = !il, il
	cum := a.peerLastTSN()
	if vPick(2) == 1 {
		vassert(vDeliver(a, vDataChunk(a, cum+2, 4, true, 1)) == nil, "a chunk held out of order")
	}
	far := cum + (1 << 31) - 1
	var c chunk
	if il {
		c = &chunkIForwardTSN{newCumulativeTSN: far}
	} else {
		c = &chunkForwardTSN{newCumulativeTSN: far}
	}
	vWorkBegin(200000, "a forward-TSN far ahead is processed in time bounded by the tracking window, not by the distance jumped")
	err := vDeliver(a, c)
	vWorkEnd()
	vassert(err == nil, "forward-TSN is never fatal")
	vassert(a.peerLastTSN() == far, "the cumulative point is the new value")
	vassert(a.payloadQueue.size() == 0, "nothing below it stays tracked")
	vcover("end")
}

// C03.L8: inbound sequence numbers from the far side of a wrap, or beyond the window, cannot
// corrupt the receiver: a forward-TSN whose stream entry is stale (behind the delivery point
// in serial arithmetic, e.g. 65535 when the stream is at 2) never moves the delivery point
// back and never wedges the stream (= C07.L3); a DATA chunk that is dropped because its TSN
// lies outside the window is never marked as received (= C01.L4), so it is never
// acknowledged without having been stored.
func vh_C03_L8_stale_stream_sequence_cannot_wedge_a_stream() { vh_C07_L3_receiver_skip_exact() }
func vh_C03_L8_dropped_chunk_is_never_marked_received()      { vh_C01_L4_duplicate_suppression() }

// C03.L9: handshake chunks that arrive in a state in which they mean nothing (a second,
// different INIT ACK while the COOKIE ECHO is outstanding; INIT, INIT ACK, COOKIE ECHO,
// COOKIE ACK on an established or closing association) change nothing (= C04.L2).
func vh_C03_L9_misplaced_handshake_chunks_change_nothing() { vh_C04_L2_stale_chunks_ignored() }

// C03.L10: a reset response nobody is waiting for. An association with no, or one,
// outstanding stream reset request receives a RE-CONFIG carrying a response parameter with
// an arbitrary response sequence number and an arbitrary result (alone, or as the second
// parameter of the chunk): no runtime panic; a response that matches no outstanding request
// changes nothing; the answered request, and only it, is retired by a final result; and a
// second copy of the same answer (the request had been retransmitted) is harmless.
func vh_C03_L10_reset_response_for_unknown_request() {
	a, _ := vNewAssoc()
	s, err := a.OpenStream(1, PayloadTypeWebRTCBinary)
	vassert(err == nil, "open stream")
	outstanding := vPick(2) == 1
	var rsn uint32
	if outstanding {
		vassert(s.Close() == nil, "close")
		a.cwnd, a.rwnd = 1<<20, 1<<20
		_ = vWriterWake(a)
		vassert(len(a.reconfigs) == 1, "one reset request outstanding")
		for k := range a.reconfigs {
			rsn = k
		}
	}
	seq := nondetU32()
	result := reconfigResult(nondetU32())
	resp := &paramReconfigResponse{reconfigResponseSequenceNumber: seq, result: result}
	c := &chunkReconfig{paramA: resp}
	if vPick(2) == 1 {
		c = &chunkReconfig{paramA: &paramReconfigResponse{reconfigResponseSequenceNumber: seq + 1, result: reconfigResultInProgress}, paramB: resp}
	}
	ssn := s.sequenceNumber
	vassert(vDeliver(a, c) == nil, "RECONFIG is never fatal")
	if !outstanding || seq != rsn {
		want := 0
		if outstanding {
			want = 1
		}
		vassert(len(a.reconfigs) == want && s.sequenceNumber == ssn, "a response that answers no outstanding request changes nothing")
		vassert(a.tReconfig.isRunning() == outstanding, "in particular the request that is outstanding keeps being retransmitted")
	} else if result != reconfigResultInProgress {
		vassert(len(a.reconfigs) == 0, "a final answer retires the request it answers")
	}
	vassert(vDeliver(a, c) == nil, "the same answer again (the request had been repeated) is never fatal either")
	vassert(!a.willSendAbort, "no ABORT is provoked")
	vassert(vLocksFree(a, s), "no lock is left held")
	vcover("end")
}

// C03.L11: a COOKIE ECHO with the wrong cookie during the handshake does not cancel the
// handshake's retransmissions (= C04.L2b); a stream reset request whose last TSN lies beyond
// the 2^32 wrap of the cumulative point is deferred, not performed (= C14.L2).
func vh_C03_L11_forged_cookie_echo_keeps_the_handshake_alive() {
	vh_C04_L2_stale_cookie_echo_keeps_retries()
}
func vh_C03_L11_reset_request_beyond_the_wrap_is_deferred() { vh_C14_L2_deferred_reset() }
