//go:build verif

package sctp

// C03 — no inbound bytes can crash, hang or corrupt an endpoint.

// C03.L1: the packet decoder and everything below it, on an arbitrary buffer of
// each length in the bound: no runtime panic is reachable (index, slice bounds,
// nil dereference, failed type assertion, division by zero are VCs on every path),
// every loop terminates within the unwinding bound, and on success the chunk
// lengths add up to the buffer length.
func vDecodeLens() []int {
	if vtier() == 0 {
		return []int{0, 11, 12, 15, 16, 18, 20, 24}
	}
	return []int{0, 3, 11, 12, 13, 15, 16, 17, 18, 19, 20, 22, 24, 28, 32}
}

func vh_C03_L1_decode() {
	vbound(12)
	lens := vDecodeLens()
	n := lens[vPick(len(lens))]
	raw := nondetBytes(n)
	vBoundSackCounts(raw)
	vFixChecksum(raw)
	p := &packet{}
	err := p.unmarshal(false, raw)
	if err == nil {
		total := packetHeaderSize
		for _, c := range p.chunks {
			vl := c.valueLength()
			total += chunkHeaderSize + vl + getPadding(vl)
		}
		vassert(total == n, "accepted packet: padded chunk lengths add up to the buffer length")
		vassert(n >= packetHeaderSize, "accepted packet has a full common header")
		// accepted chunks pass through check() without panicking
		for _, c := range p.chunks {
			_, _ = c.check()
		}
		vobserve("nchunks", uint64(len(p.chunks)))
		vcover("accepted")
	} else {
		vcover("rejected")
	}
}
