//go:build verif

package sctp

// C17 — interleaving is used exactly as negotiated and the stream scheduler is fair.

func vFrag(si uint16, msg uint16, frag, nfrag int, unordered bool, size int) *chunkPayloadData {
	return &chunkPayloadData{
		streamIdentifier: si, streamSequenceNumber: msg, fragmentSequenceNumber: uint32(frag),
		beginningFragment: frag == 0, endingFragment: frag == nfrag-1, unordered: unordered,
		userData: make([]byte, size),
	}
}

// C17.L3: without interleaving the fragments of one message leave the pending queue
// contiguously and in order, whatever is pushed meanwhile (so they get consecutive TSNs).
func vh_C17_L3_message_contiguity() {
	q := newPendingQueue(nil)
	events := 6
	if vtier() > 0 {
		events = 8
	}
	nextMsg := uint16(0)
	cur, curFrag, curTotal := -1, 0, 0
	popped, pushed := 0, 0
	for e := 0; e < events; e++ {
		if vPick(2) == 0 {
			nfrag := 1 + vPick(3)
			un := vPick(2) == 1
			for f := 0; f < nfrag; f++ {
				c := vFrag(1, nextMsg, f, nfrag, un, 1)
				c.messageIdentifier = uint32(nfrag)
				q.push(c)
				pushed++
			}
			nextMsg++
		} else {
			c := q.peek()
			vassert((c == nil) == (q.size() == 0), "peek returns a chunk exactly when the queue is not empty")
			if c == nil {
				continue
			}
			vassert(q.peek() == c, "peek is stable until pop")
			vassert(q.pop(c) == nil, "popping the peeked chunk succeeds")
			popped++
			if cur < 0 {
				vassert(c.beginningFragment && c.fragmentSequenceNumber == 0, "a new message starts with its first fragment")
				cur, curFrag, curTotal = int(c.streamSequenceNumber), 0, int(c.messageIdentifier)
			}
			vassert(int(c.streamSequenceNumber) == cur && int(c.fragmentSequenceNumber) == curFrag, "fragments of the selected message are popped contiguously, in order")
			curFrag++
			if c.endingFragment {
				vassert(curFrag == curTotal, "the message ends after all its fragments")
				cur = -1
			}
		}
		vassert(q.size() == pushed-popped, "size equals pushes minus pops")
	}
	vobserve("popped", uint64(popped))
	vcover("end")
}

// C17.L4: the framing mode can only be switched while the queue is empty.
func vh_C17_L4_mode_switch_only_when_empty() {
	q := newPendingQueue(func() InterleavingStreamScheduler { return newRoundRobinPendingQueuePolicy() })
	n := vPick(3)
	for i := 0; i < n; i++ {
		q.push(vFrag(1, uint16(i), 0, 1, false, 1))
	}
	before := q.policy
	err := q.setInterleaving(true)
	if n == 0 {
		vassert(err == nil && q.interleaving, "switching an empty queue succeeds")
		_, isSched := q.policy.(*interleavingStreamSchedulerPolicy)
		vassert(isSched, "the interleaving scheduler is installed")
		vassert(q.setInterleaving(false) == nil && !q.interleaving, "and back")
	} else {
		vassert(err != nil && !q.interleaving && q.policy == before, "switching a non-empty queue is refused and changes nothing")
		vassert(q.size() == n, "queued chunks stay queued")
	}
	vcover("end")
}

// C17.L5: round robin: per-stream FIFO, and between two services of a continuously
// backlogged stream every other continuously backlogged stream is served exactly once.
func vh_C17_L5_round_robin_fair() {
	q := newPendingQueue(func() InterleavingStreamScheduler { return newRoundRobinPendingQueuePolicy() })
	vassert(q.setInterleaving(true) == nil, "interleaving on")
	const ns = 3
	events := 7
	if vtier() > 0 {
		events = 9
	}
	nf := 1 + vPick(2)               // every message has nf fragments: with interleaving the unit of service is the chunk, not the message
	var pushedSeq, poppedSeq [ns]int // per-stream FIFO counters
	var backlog [ns]int
	var servedSince [ns]int // services since the stream became backlogged
	var active [ns]bool
	for e := 0; e < events; e++ {
		if vPick(2) == 0 {
			si := vPick(ns)
			c := vFrag(uint16(si), uint16(pushedSeq[si]/nf), pushedSeq[si]%nf, nf, false, 1)
			pushedSeq[si]++
			q.push(c)
			if backlog[si] == 0 {
				active[si] = true
				servedSince[si] = 0
				// everyone else's count restarts relative to the newcomer
				for j := 0; j < ns; j++ {
					servedSince[j] = 0
				}
			}
			backlog[si]++
		} else {
			c := q.peek()
			vassert((c == nil) == (q.size() == 0), "a non-empty scheduler always offers a chunk (no starvation)")
			if c == nil {
				continue
			}
			si := int(c.streamIdentifier)
			vassert(q.pop(c) == nil, "popping the peeked chunk succeeds")
			vassert(int(c.streamSequenceNumber) == poppedSeq[si]/nf && int(c.fragmentSequenceNumber) == poppedSeq[si]%nf, "chunks of one stream leave in the order they were queued")
			poppedSeq[si]++
			backlog[si]--
			servedSince[si]++
			for j := 0; j < ns; j++ {
				if j != si && active[j] && backlog[j] > 0 {
					vassert(servedSince[si] <= servedSince[j]+1, "no backlogged stream is served twice while another backlogged stream waits")
				}
			}
			if backlog[si] == 0 {
				active[si] = false
			}
		}
	}
	vcover("end")
}

// C17.L6: weighted fair queueing, selection step. Arbitrary finite finish tags on the
// heads of up to three stream queues: Peek selects a head with minimal tag (ties to the
// lower stream id), Pop removes exactly that chunk, virtual time never decreases.
func vh_C17_L6_wfq_selection() {
	q := newWeightedFairQueueingPendingQueuePolicy(nil)
	ns := 2 + vPick(2)
	var heads [3]*chunkPayloadData
	var tags [3]float64
	q.virtualTime = nondetF64()
	vassume(q.virtualTime >= 0 && q.virtualTime <= 1e9)
	vt0 := q.virtualTime
	for i := 0; i < ns; i++ {
		sq := newPendingBaseQueue()
		heads[i] = vFrag(uint16(i+1), 0, 0, 1, false, 1)
		sq.push(heads[i])
		second := vFrag(uint16(i+1), 1, 0, 1, false, 1)
		sq.push(second)
		q.streamQueues[uint16(i+1)] = sq
		tags[i] = nondetF64()
		vassume(tags[i] >= 0 && tags[i] <= 1e9)
		q.chunkFinish[heads[i]] = tags[i]
		later := nondetF64()
		vassume(later >= tags[i] && later <= 2e9)
		q.chunkFinish[second] = later
	}
	sel := q.Peek()
	vassert(sel != nil, "a non-empty scheduler always offers a chunk")
	if sel == nil {
		return
	}
	c := sel.chunkPayloadData()
	k := int(c.streamIdentifier) - 1
	vassert(c == heads[k], "the head of a stream queue is offered (per-stream FIFO)")
	for i := 0; i < ns; i++ {
		vassert(tags[k] <= tags[i], "the selected head has a minimal finish tag")
		if tags[i] == tags[k] {
			vassert(k <= i, "ties go to the lower stream identifier")
		}
	}
	vassert(q.Peek().chunkPayloadData() == c, "the selection is kept until pop")
	vassert(q.Pop(c) == nil, "pop of the selected chunk succeeds")
	vassert(q.virtualTime >= vt0 && q.virtualTime >= tags[k], "virtual time never decreases and reaches the served tag")
	vassert(q.streamQueues[uint16(k+1)].get(0).streamSequenceNumber == 1, "exactly the selected chunk was removed")
	for i := 0; i < ns; i++ {
		if i != k {
			vassert(q.streamQueues[uint16(i+1)].get(0) == heads[i], "other streams are untouched")
		}
	}
	vobserve("k", uint64(k))
	vcover("end")
}

// C17.L6b: weighted fair queueing, end to end with concrete weights and sizes (the tag
// arithmetic runs on constants): while two streams are both backlogged their
// weight-normalised service differs by at most one maximum-size chunk per stream.
func vh_C17_L6_wfq_fairness_bound() {
	w1, w2 := uint16(1+vPick(3)), uint16(1+vPick(3))
	q := newWeightedFairQueueingPendingQueuePolicy(map[uint16]uint16{1: w1, 2: w2})
	const maxLen = 2
	n := 3 // (4 with the two-stage history: 55 000 concrete paths, over 15 minutes; not registered)
	// an earlier busy period: one of the streams has sent 0..3 chunks alone and the scheduler
	// has drained completely since (what a stream sent before an idle period gives it neither
	// credit nor debt afterwards)
	hist := vPick(4)
	histStream := uint16(1 + vPick(2))
	if hist == 0 {
		histStream = 1
	}
	for i := 0; i < hist; i++ {
		q.Push(vFrag(histStream, uint16(100+i), 0, 1, false, maxLen))
	}
	for i := 0; i < hist; i++ {
		sel := q.Peek()
		vassert(sel != nil && q.Pop(sel.chunkPayloadData()) == nil, "the earlier busy period drains")
	}
	// ... and then the other stream may have had a busy period of its own while the first was
	// idle (the virtual clock moved on without it)
	hist2 := 0
	if hist > 0 {
		hist2 = vPick(3)
	}
	for i := 0; i < hist2; i++ {
		q.Push(vFrag(3-histStream, uint16(200+i), 0, 1, false, maxLen))
	}
	for i := 0; i < hist2; i++ {
		sel := q.Peek()
		vassert(sel != nil && q.Pop(sel.chunkPayloadData()) == nil, "the second busy period drains")
	}
	vassert(q.Peek() == nil, "the scheduler is idle")
	var pushed [2]int
	for i := 0; i < n; i++ {
		for s := 0; s < 2; s++ {
			c := vFrag(uint16(s+1), uint16(i), 0, 1, false, 1+vPick(maxLen))
			q.Push(c)
			pushed[s]++
		}
	}
	var served [2]int   // bytes
	var left = pushed   // chunks
	var order [2]uint16 // next expected per-stream sequence
	for left[0] > 0 && left[1] > 0 {
		sel := q.Peek()
		vassert(sel != nil, "a non-empty scheduler always offers a chunk")
		c := sel.chunkPayloadData()
		s := int(c.streamIdentifier) - 1
		vassert(c.streamSequenceNumber == order[s], "per-stream FIFO")
		order[s]++
		vassert(q.Pop(c) == nil, "pop succeeds")
		served[s] += len(c.userData)
		left[s]--
		// |S1/w1 - S2/w2| <= L/w1 + L/w2  (multiply through by w1*w2 to stay in integers)
		lhs := served[0]*int(w2) - served[1]*int(w1)
		if lhs < 0 {
			lhs = -lhs
		}
		vassert(lhs <= maxLen*int(w2)+maxLen*int(w1), "weight-normalised service of two backlogged streams stays within one maximum-size chunk per stream")
	}
	vcover("end")
}

// C17.L1: framing flags derived from what both sides announced (all 16 combinations,
// symbolic): interleaving only when both enabled it; with interleaving only the
// interleaved forward-TSN variant may be used, never the plain one; without it only the
// plain one.
func vh_C17_L1_negotiated_framing_flags() {
	a, _ := vNewAssoc()
	a.localInterleaving, a.peerInterleaving = nondetBool(), nondetBool()
	a.peerForwardTSN, a.peerIForwardTSN = nondetBool(), nondetBool()
	a.useInterleaving = false
	vassert(a.updateInterleavingState() == nil, "the pending queue is empty: the mode can be set")
	want := a.localInterleaving && a.peerInterleaving
	vassert(a.useInterleaving == want, "interleaving is on exactly when both sides enabled it")
	if want {
		vassert(!a.useForwardTSN, "with interleaving a plain FORWARD-TSN is never used")
		vassert(a.useIForwardTSN == a.peerIForwardTSN, "I-FORWARD-TSN only if the peer supports it")
		vassert(a.maxPayloadSize == maxPayloadSizeForMTU(a.mtu, true), "fragments sized for I-DATA")
	} else {
		vassert(!a.useIForwardTSN, "without interleaving I-FORWARD-TSN is never used")
		vassert(a.useForwardTSN == a.peerForwardTSN, "plain FORWARD-TSN only if the peer supports it")
		vassert(a.maxPayloadSize == maxPayloadSizeForMTU(a.mtu, false), "fragments sized for DATA")
	}
	vassert(a.partialReliabilityEnabled() == (a.useForwardTSN || a.useIForwardTSN), "partial reliability needs a usable forward-TSN variant")
	vcover("end")
}

// C17.L6c: the weights given through the public options reach the scheduler: two streams
// with weights set by two separate options share the link within the fairness bound.
func vh_C17_L6_wfq_weights_from_options() {
	w1, w2 := uint16(1+vPick(3)), uint16(1+vPick(3))
	cfg := &Config{}
	opt := WithInterleavingOptions(
		WithInterleavingWeightedFairQueueingWeight(1, w1),
		WithInterleavingWeightedFairQueueingWeight(2, w2),
	)
	vassert(opt.applyClient(cfg) == nil, "options accepted")
	q := cfg.interleaving.newStreamScheduler()
	q.Reset()
	const L = 2
	for i := 0; i < 5; i++ {
		q.Push(vFrag(1, uint16(i), 0, 1, false, L))
		q.Push(vFrag(2, uint16(i), 0, 1, false, L))
	}
	var served [2]int
	for served[0] < 5*L && served[1] < 5*L {
		sel := q.Peek()
		vassert(sel != nil, "a non-empty scheduler always offers a chunk")
		c := sel.chunkPayloadData()
		vassert(q.Pop(c) == nil, "pop succeeds")
		served[int(c.streamIdentifier)-1] += len(c.userData)
		lhs := served[0]*int(w2) - served[1]*int(w1)
		if lhs < 0 {
			lhs = -lhs
		}
		vassert(lhs <= L*int(w2)+L*int(w1), "the configured weights govern the sharing (weight-normalised service within one chunk per stream)")
	}
	vcover("end")
}

// C17.L1b: what is negotiated comes from the INIT that establishes the association. A
// listener receives two INITs before the handshake completes (a peer that restarted with
// other settings, a stale INIT, an INIT collision): each advertises I-DATA support or not,
// independently. After the second one the framing follows the second INIT only, and the
// first user message the listener sends uses it.
func vh_C17_L1_framing_follows_latest_init() {
	localIl := vPick(2) == 1
	b := vHandshakeEndpoint(localIl, false)
	b.initServer()
	split := vPick(3) // the supported chunk types in one parameter, or spread over two
	mkInit := func(il bool) []byte {
		init := &chunkInit{}
		init.initiateTag, init.initialTSN = 1+nondetU32()%0xfffffffe, nondetU32()
		init.numOutboundStreams, init.numInboundStreams = 10, 10
		init.advertisedReceiverWindowCredit = 1 << 16
		vSetSupportedExtensionsSplit(&init.chunkInitCommon, il, split)
		raw, err := (&packet{sourcePort: 5000, destinationPort: 5000, chunks: []chunk{init}}).marshal(true)
		vassert(err == nil, "INIT marshals")
		return raw
	}
	il1, il2 := vPick(2) == 1, vPick(2) == 1
	vInbound(b, mkInit(il1))
	_ = vWriterWake(b)
	vInbound(b, mkInit(il2))
	vassert(b.peerInterleaving == il2 && b.peerIForwardTSN == il2 && b.peerForwardTSN, "what the peer supports is what its latest INIT lists")
	vassert(b.useInterleaving == (localIl && il2), "interleaving is on exactly when this side enabled it and the latest INIT advertised it")
	vassert(b.useIForwardTSN == b.useInterleaving && b.useForwardTSN == !b.useInterleaving, "the forward-TSN variant follows")
	// the INIT ACK answers the latest INIT; complete the handshake with its cookie
	var cookie []byte
	for _, raw := range vWriterWake(b) {
		if p := vDecode(raw); p != nil {
			for _, c := range p.chunks {
				if ack, ok := c.(*chunkInitAck); ok {
					for _, prm := range ack.params {
						if sc, ok := prm.(*paramStateCookie); ok {
							cookie = sc.cookie
						}
					}
				}
			}
		}
	}
	vassert(cookie != nil, "the latest INIT is answered with a cookie")
	echo, err := (&packet{sourcePort: 5000, destinationPort: 5000, verificationTag: b.myVerificationTag, chunks: []chunk{&chunkCookieEcho{cookie: cookie}}}).marshal(true)
	vassert(err == nil, "COOKIE ECHO marshals")
	vInbound(b, echo)
	vassert(b.getState() == established, "established")
	_ = vWriterWake(b)
	// a two-fragment message on each of two streams: framed as negotiated, and without
	// interleaving the fragments of each message occupy consecutive TSNs (the way the queue
	// hands out chunks follows the framing that was negotiated last, too)
	s1, oerr := b.OpenStream(1, PayloadTypeWebRTCBinary)
	vassert(oerr == nil, "open stream")
	s2, oerr2 := b.OpenStream(2, PayloadTypeWebRTCBinary)
	vassert(oerr2 == nil, "open stream")
	size := int(b.maxPayloadSize) + 1
	_, werr := s1.WriteSCTP(make([]byte, size), PayloadTypeWebRTCBinary)
	vassert(werr == nil, "write accepted")
	_, werr = s2.WriteSCTP(make([]byte, size), PayloadTypeWebRTCBinary)
	vassert(werr == nil, "write accepted")
	b.cwnd, b.rwnd = 1<<20, 1<<20
	var count [3]int
	var lo, hi [3]uint32
	for _, raw := range vWriterWake(b) {
		if p := vDecode(raw); p != nil {
			for _, c := range p.chunks {
				if d, ok := c.(*chunkPayloadData); ok && d.streamIdentifier <= 2 {
					vassert(d.isIData() == (localIl && il2), "user data is framed as negotiated with the peer that completed the handshake")
					i := d.streamIdentifier
					if count[i] == 0 || sna32LT(d.tsn, lo[i]) {
						lo[i] = d.tsn
					}
					if count[i] == 0 || sna32GT(d.tsn, hi[i]) {
						hi[i] = d.tsn
					}
					count[i]++
				}
			}
		}
	}
	vassert(count[1] == 2 && count[2] == 2, "both messages go out, two fragments each")
	if !(localIl && il2) {
		vassert(hi[1]-lo[1] == 1 && hi[2]-lo[2] == 1, "without interleaving the fragments of one message occupy consecutive TSNs")
	}
	vcover("end")
}

// C17.L2b: a forward-TSN of the wrong kind is answered with a protocol-violation ABORT in
// every negotiated state: plain FORWARD-TSN with interleaving on (whether or not the peer
// also announced I-FORWARD-TSN), I-FORWARD-TSN with interleaving off.
func vh_C17_L2_wrong_kind_forward_tsn() {
	il := vPick(2) == 1
	a, _ := vNewAssocOpts(vAssocOpts{interleaving: il})
	a.peerForwardTSN, a.peerIForwardTSN = nondetBool(), nondetBool()
	vassert(a.updateInterleavingState() == nil, "mode set")
	cum := a.peerLastTSN()
	var c chunk
	if il {
		c = &chunkForwardTSN{newCumulativeTSN: cum + 1}
	} else {
		c = &chunkIForwardTSN{newCumulativeTSN: cum + 1}
	}
	vassert(vDeliver(a, c) == nil, "a wrong-kind forward-TSN is not fatal to the read loop")
	vassert(a.willSendAbort, "a forward-TSN of the kind that was not negotiated requests an ABORT")
	_, isPV := a.willSendAbortCause.(*errorCauseProtocolViolation)
	vassert(isPV, "the ABORT carries a protocol-violation cause")
	vassert(a.peerLastTSN() == cum, "and the cumulative point does not move")
	vcover("end")
}

// C17.L1c: the application's choice reaches the negotiation whatever the order of the
// options: interleaving disabled by option stays disabled when a plain Config follows or
// precedes it, on the client and on the server side (and enabled stays enabled).
func vh_C17_L1_interleaving_option_order() {
	want := vPick(2) == 1
	conn := &vConn{}
	base := Config{NetConn: conn, LoggerFactory: vLoggerFactory{}, Name: "v"}
	var cfg *Config
	var err error
	switch vPick(4) {
	case 0:
		cfg, err = buildServerConfig(WithEnableInterleaving(want), base)
	case 1:
		cfg, err = buildServerConfig(base, WithEnableInterleaving(want))
	case 2:
		cfg, err = buildClientConfig(WithEnableInterleaving(want), base)
	case 3:
		cfg, err = buildClientConfig(base, WithEnableInterleaving(want))
	}
	vassert(err == nil && cfg != nil, "configuration accepted")
	if cfg == nil {
		return
	}
	vassert(cfg.enableInterleaving == want, "the interleaving option is honoured whatever else is passed before or after it")
	a := createAssociationFromConfigWithTsn(cfg, nondetU32())
	vassert(a.localInterleaving == want, "and reaches the association")
	vcover("end")
}

// C17.L1d: with SNAP the two tokens decide the framing on both sides (= C04.L1 snap).
func vh_C17_L1_snap_tokens_decide_framing() { vh_C04_L1_snap_tokens() }

// C17.L5b: every association gets a scheduler of its own. The same option value (round robin,
// weighted fair queueing) applied to two configurations yields two independent scheduler
// instances: what one association queues is never handed to the other, and resetting one
// does not empty the other.
func vh_C17_L5_scheduler_instances_are_independent() {
	var opt AssociationOption
	if vPick(2) == 1 {
		opt = WithInterleavingOptions(WithInterleavingRoundRobinScheduler())
	} else {
		opt = WithInterleavingOptions(WithInterleavingWeightedFairQueueingWeight(1, 2))
	}
	c1, c2 := &Config{}, &Config{}
	vassert(opt.applyClient(c1) == nil && opt.applyServer(c2) == nil, "options accepted")
	q1, q2 := c1.interleaving.newStreamScheduler(), c2.interleaving.newStreamScheduler()
	q1.Reset()
	q2.Reset()
	q1.Push(vFrag(7, 0, 0, 1, false, 1))
	vassert(q1.Peek() != nil && q2.Peek() == nil, "a chunk queued by one association is not in the other's scheduler")
	q2.Reset()
	vassert(q1.Peek() != nil, "resetting one association's scheduler leaves the other's queue alone")
	q3 := c1.interleaving.newStreamScheduler()
	q3.Reset()
	vassert(q1.Peek() != nil && q3.Peek() == nil, "nor does a second scheduler made from the same configuration")
	vcover("end")
}

// C17.L1e: the same on the client side: interleaving follows everything the honoured INIT
// ACK lists, whether in one Supported Extensions parameter or spread over two (= C04.L6b).
func vh_C17_L1_framing_follows_init_ack() { vh_C04_L6_agreement_follows_init_ack() }

// C17.L1f: the supported-extensions list is found behind unknown parameters (= C12.L4).
func vh_C17_L1_extensions_found_behind_unknown_parameters() {
	vh_C12_L4_init_unknown_parameter_is_skipped()
}

// C17.L1g: both sides start as clients; whichever packets are lost (also every INIT ACK in one
// direction, so that one side is established by the COOKIE ECHO alone) both end up with the
// framing both enabled (= C04.L1b).
func vh_C17_L1_simultaneous_open_agrees_on_framing() { vh_C04_L1_simultaneous_open() }
