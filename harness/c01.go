//go:build verif

package sctp

// C01 — reliable ordered streams deliver each message exactly once, in order, intact.

// C01.L5: reassembly and in-order release. Two consecutive ordered messages of 1-3 and
// 1-2 fragments (DATA by SSN, I-DATA by MID), symbolic TSN/SSN/MID bases (any
// position relative to the wrap) and symbolic payload bytes, fragments delivered in
// every arrival order.
func vh_C01_L5_ordered_reassembly() {
	iData := vPick(2) == 1
	r := newReassemblyQueue(3, 0)
	base := nondetU32()
	ssn := nondetU16()
	mid := nondetU32()
	r.nextSSN, r.nextMID = ssn, mid // arbitrary history brought the cursors here
	nf0, nf1 := 1+vPick(3), 1+vPick(2)
	if nf0 == 3 {
		nf1 = 1
	}
	m0 := vMakeMsg(3, iData, false, ssn, mid, base, nf0, PayloadTypeWebRTCString)
	m1 := vMakeMsg(3, iData, false, ssn+1, mid+1, base+uint32(nf0), nf1, PayloadTypeWebRTCBinary)
	all := append(append([]*chunkPayloadData{}, m0.chunks...), m1.chunks...)
	got0 := 0
	// duplicates never reach the reassembly queue: they are filtered by TSN at association
	// level (vh_C01_L4), so none are injected here
	for _, k := range vPermute(len(all)) {
		c := all[k]
		r.push(c)
		if k < nf0 {
			got0++
		}
		vassert(r.isReadable() == (got0 == nf0), "readable exactly when the next message in order is complete")
	}
	buf := make([]byte, 8)
	n, ppi, err := r.read(buf)
	vassert(err == nil && n == nf0 && ppi == PayloadTypeWebRTCString, "first read returns the first message with its PPI")
	vassert(vBytesEq(buf[:n], m0.bytes), "first message intact")
	n, ppi, err = r.read(buf)
	vassert(err == nil && n == nf1 && ppi == PayloadTypeWebRTCBinary, "second read returns the second message with its PPI")
	vassert(vBytesEq(buf[:n], m1.bytes), "second message intact")
	_, _, err = r.read(buf)
	vassert(err != nil, "no third message")
	vassert(r.getNumBytes() == 0, "queue drained")
	if iData {
		vassert(r.nextMID == mid+2, "cursor advanced past both messages")
	} else {
		vassert(r.nextSSN == ssn+2, "cursor advanced past both messages")
	}
	vobserve("nf0", uint64(nf0))
	vcover("end")
}

// C01 end to end: the two-party transfer with one or two faults (same obligation as
// vh_C02_L1, whose delivery assertions are C01's statement).
func vh_C01_E2E_reliable_transfer() { vh_C02_L1_reliable_transfer_one_fault() }

// C01.L6: accepted messages are not lost to the stream's own close (the reset request never
// overtakes the data written before it) nor to a failed write before them (no hole in the
// sequence space): same obligations as C14.L1 and C18.L2.
func vh_C01_L6_close_does_not_overtake_data() { vh_C14_L1_close_after_data_and_reuse() }
func vh_C01_L6_failed_write_leaves_no_hole()  { vh_C18_L2_block_write_gate() }

// C01.L7: accepted messages are not lost to a shutdown that begins while they are in flight
// (= C08.L1d), nor to a skip sent on behalf of another, partially reliable stream (= C07.L2).
func vh_C01_L7_delivered_despite_shutdown()      { vh_C08_L1_inflight_at_shutdown() }
func vh_C01_L7_skip_never_covers_reliable_data() { vh_C07_L2_advance_only_over_abandoned() }

// C01.L4b / C05.L0: the TSN tracking structure built by the real constructor for any
// receive-buffer size can tell apart every TSN of the window it admits (two TSNs of one
// window sharing a slot would make a never-received chunk look like a duplicate).
func vh_C01_L4_tracking_window_capacity() {
	buf := nondetU32()
	want := getMaxTSNOffset(buf)
	vassert(want >= minTSNOffset && want <= maxTSNOffset, "window between the configured limits")
	q := newReceivePayloadQueue(want)
	vassert(q.maxTSNOffset >= want && q.maxTSNOffset < want+64, "the admitted window is the requested one rounded up to a word")
	vassert(uint32(len(q.tsnBitmask))*64 >= q.maxTSNOffset, "the bitmap has a slot for every TSN of the admitted window")
	vassert(q.maxTSNOffset <= 65535, "every TSN of the admitted window can be named by a 16-bit gap ack block offset")
	// and for an arbitrary small request
	small := uint32(1 + vPick(200))
	qs := newReceivePayloadQueue(small)
	vassert(qs.maxTSNOffset >= small && uint32(len(qs.tsnBitmask))*64 >= qs.maxTSNOffset, "also for small windows")
	vobserve("words", uint64(len(q.tsnBitmask)))
	vcover("end")
}

// C01.L8: ordered delivery when an earlier message is missing entirely. Message k+1 arrives
// complete while nothing of message k has arrived (DATA by SSN, I-DATA by MID, symbolic
// bases): nothing is readable and a read attempt returns nothing; once message k arrives
// the two are read in order.
func vh_C01_L8_later_message_waits_for_missing_earlier_one() {
	iData := vPick(2) == 1
	r := newReassemblyQueue(3, 0)
	ssn, mid, base := nondetU16(), nondetU32(), nondetU32()
	r.nextSSN, r.nextMID = ssn, mid
	nf := 1 + vPick(2)
	m1 := vMakeMsg(3, iData, false, ssn, mid, base, 1, PayloadTypeWebRTCBinary)
	m2 := vMakeMsg(3, iData, false, ssn+1, mid+1, base+1, nf, PayloadTypeWebRTCString)
	for _, c := range m2.chunks {
		r.push(c)
	}
	vassert(!r.isReadable(), "a complete later message is not readable while the earlier one is missing")
	buf := make([]byte, 8)
	n, _, err := r.read(buf)
	vassert(err != nil && n == 0, "and a read attempt returns nothing (never the later message first)")
	vassert(r.getNumBytes() == nf, "the later message stays queued")
	r.push(m1.chunks[0])
	vassert(r.isReadable(), "readable once the earlier message has arrived")
	n, ppi, err := r.read(buf)
	vassert(err == nil && n == 1 && buf[0] == m1.bytes[0] && ppi == PayloadTypeWebRTCBinary, "the earlier message is read first")
	n, ppi, err = r.read(buf)
	vassert(err == nil && n == nf && vBytesEq(buf[:n], m2.bytes) && ppi == PayloadTypeWebRTCString, "then the later one")
	vcover("end")
}

// C01.L9: the retransmission of the earliest outstanding chunk is never held back by a small
// non-zero peer window (= C02.L3 / C06.L2, whose peer window is symbolic).
func vh_C01_L9_earliest_chunk_always_retransmitted() { vh_C06_L2_abandoned_never_resent() }

// C01.L10: the receiver never forgets or invents a received TSN when a skip clears a range of
// its bitmap (= C05.S1), and a too-small read never consumes the message (= C18.L3).
func vh_C01_L10_skip_clears_exactly_its_range() { vh_C05_step_clear_range() }
func vh_C01_L10_short_read_keeps_the_message()  { vh_C18_L3_short_buffer() }

// C01.L11: a message that arrives between a timed-out read and the next one is not lost (= C18.L4).
func vh_C01_L11_data_arriving_after_a_timed_out_read_is_kept() { vh_C18_L4_read_deadline() }

// C01.L12: nothing an established association receives out of place can cost it a message:
// stale handshake chunks leave tags and TSN points alone (= C04.L2), a reset response nobody
// waits for changes no sequence number (= C03.L10), a failed blocking write gives back
// exactly the number it took (= C20.L9).
func vh_C01_L12_stale_handshake_chunks_leave_sequence_state_alone() { vh_C04_L2_stale_chunks_ignored() }
func vh_C01_L12_unexpected_reset_response_changes_no_numbers() {
	vh_C03_L10_reset_response_for_unknown_request()
}
func vh_C01_L12_failed_blocking_write_gives_back_its_number() {
	vh_C20_L9_parked_write_fails_while_others_go_on()
}
