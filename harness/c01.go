//go:build verif

package sctp

// C01 — reliable ordered streams deliver each message exactly once, in order, intact.

// C01.L5: reassembly and in-order release. Two consecutive ordered messages of 1-2
// fragments each (DATA by SSN, I-DATA by MID), symbolic TSN/SSN/MID bases (any
// position relative to the wrap) and symbolic payload bytes, fragments delivered in
// every arrival order.
func vh_C01_L5_ordered_reassembly() {
	iData := vPick(2) == 1
	r := newReassemblyQueue(3, 0)
	base := nondetU32()
	ssn := nondetU16()
	mid := nondetU32()
	r.nextSSN, r.nextMID = ssn, mid // arbitrary history brought the cursors here
	nf0, nf1 := 1+vPick(2), 1+vPick(2)
	m0 := vMakeMsg(3, iData, false, ssn, mid, base, nf0, PayloadTypeWebRTCString)
	m1 := vMakeMsg(3, iData, false, ssn+1, mid+1, base+uint32(nf0), nf1, PayloadTypeWebRTCBinary)
	all := append(append([]*chunkPayloadData{}, m0.chunks...), m1.chunks...)
	got0 := 0
	// duplicates never reach the reassembly queue: they are filtered by TSN at association
	// level (vh_C01_L4), so none are injected here
	for _, k := range vPermute(len(all)) {
		c := all[k]
		r.push(c)
		if k < nf0 {
			got0++
		}
		vassert(r.isReadable() == (got0 == nf0), "readable exactly when the next message in order is complete")
	}
	buf := make([]byte, 8)
	n, ppi, err := r.read(buf)
	vassert(err == nil && n == nf0 && ppi == PayloadTypeWebRTCString, "first read returns the first message with its PPI")
	vassert(vBytesEq(buf[:n], m0.bytes), "first message intact")
	n, ppi, err = r.read(buf)
	vassert(err == nil && n == nf1 && ppi == PayloadTypeWebRTCBinary, "second read returns the second message with its PPI")
	vassert(vBytesEq(buf[:n], m1.bytes), "second message intact")
	_, _, err = r.read(buf)
	vassert(err != nil, "no third message")
	vassert(r.getNumBytes() == 0, "queue drained")
	if iData {
		vassert(r.nextMID == mid+2, "cursor advanced past both messages")
	} else {
		vassert(r.nextSSN == ssn+2, "cursor advanced past both messages")
	}
	vobserve("nf0", uint64(nf0))
	vcover("end")
}
