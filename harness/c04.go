//go:build verif

package sctp

import (
	"errors"
	"time"
)

// C04 — handshake reaches agreement under packet faults and fails cleanly otherwise.

// vHandshakeRecvBuf, when non-zero, is the receive buffer of the next endpoint built
// (the two sides of a handshake may advertise different windows).
var vHandshakeRecvBuf uint32

func vHandshakeEndpoint(il, zc bool) *Association {
	conn := &vConn{}
	cfg := &Config{NetConn: conn, LoggerFactory: vLoggerFactory{}, Name: "v", EnableZeroChecksum: zc, MaxReceiveBufferSize: vHandshakeRecvBuf}
	vHandshakeRecvBuf = 0
	cfg.enableInterleaving, cfg.enableInterleavingSet = il, true
	a := createAssociationFromConfigWithTsn(cfg, nondetU32())
	a.payloadQueue = newReceivePayloadQueue(192)
	a.handshakeCompletedCh = make(chan error, 1) // the connect/accept call is waiting for the result
	return a
}

func vCheckAgreement(a, b *Association, ilA, ilB, zA, zB bool) {
	vassert(a.getState() == established && b.getState() == established, "both sides reach ESTABLISHED")
	vassert(a.useInterleaving == (ilA && ilB) && b.useInterleaving == (ilA && ilB), "interleaving is on exactly when both enabled it")
	vassert(a.useIForwardTSN == a.useInterleaving && b.useIForwardTSN == b.useInterleaving, "the forward-TSN variant matches interleaving")
	vassert(a.useForwardTSN == !a.useInterleaving && b.useForwardTSN == !b.useInterleaving, "plain FORWARD-TSN otherwise")
	vassert(a.sendZeroChecksum == zB && b.sendZeroChecksum == zA, "each side sends zero checksums only if the other declared them acceptable with the DTLS method")
	vassert(a.peerLastTSN() == b.myNextTSN-1 && b.peerLastTSN() == a.myNextTSN-1, "each side expects the peer's initial TSN")
	vassert(a.peerVerificationTag == b.myVerificationTag && b.peerVerificationTag == a.myVerificationTag, "verification tags agree")
	vassert(a.maxPayloadSize == b.maxPayloadSize, "both sides fragment to the same payload size")
	vassert(a.RWND() == b.maxReceiveBufferSize && b.RWND() == a.maxReceiveBufferSize, "each side starts with the receive window the peer advertised")
	ma, okA := a.Metadata()
	mb, okB := b.Metadata()
	vassert(okA && okB, "metadata is available once established")
	vassert(ma.ZeroChecksumSendingEnabled == a.sendZeroChecksum && ma.ZeroChecksumReceivingEnabled == a.recvZeroChecksum && mb.ZeroChecksumSendingEnabled == b.sendZeroChecksum && mb.ZeroChecksumReceivingEnabled == b.recvZeroChecksum, "the reported agreement is the negotiated one (sending / receiving not crossed)")
	vassert(ma.MessageInterleavingEnabled == a.useInterleaving && mb.MessageInterleavingEnabled == b.useInterleaving, "interleaving is reported as negotiated")
	vassert(!a.t1Init.isRunning() && !a.t1Cookie.isRunning() && !b.t1Init.isRunning() && !b.t1Cookie.isRunning(), "no handshake timer is left running on an established association")
}

// C04.L1: client/server handshake over real marshalled packets, all 2^4 option
// combinations, optionally one lost packet (T1 timers recover) or every packet duplicated.
func vh_C04_L1_client_server() {
	ilA, ilB, zA, zB := vPick(2) == 1, vPick(2) == 1, vPick(2) == 1, vPick(2) == 1
	a := vHandshakeEndpoint(ilA, zA)
	vHandshakeRecvBuf = []uint32{8192, 1500}[vPick(2)] // the server advertises a smaller window than the client, down to the RFC minimum
	b := vHandshakeEndpoint(ilB, zB)
	a.initClient()
	b.initServer()
	vassert(a.getState() == cookieWait && a.t1Init.isRunning(), "client sent INIT and started T1-init")
	fault := vPick(3) // 0 none, 1 one loss (thorough: two losses), 2 every packet delivered twice
	dropAt, dropAt2 := -1, -1
	if fault == 1 {
		dropAt = vPick(4)
		if vtier() > 0 {
			dropAt2 = dropAt + vPick(4) // a second loss (or the same packet again: one loss)
		}
	}
	idx := 0
	wire := func(x, y *Association) int {
		n := 0
		for _, raw := range vWriterWake(x) {
			vassert(vDecode(raw) != nil, "handshake packet decodes")
			if idx != dropAt && idx != dropAt2 {
				vInbound(y, raw)
				if fault == 2 {
					vInbound(y, raw)
				}
			}
			idx++
			n++
		}
		return n
	}
	for round := 0; round < 12; round++ {
		n := wire(a, b) + wire(b, a)
		if n == 0 {
			if a.getState() == established && b.getState() == established {
				break
			}
			vFireRtx(a, a.t1Init)
			vFireRtx(a, a.t1Cookie)
		}
	}
	vCheckAgreement(a, b, ilA, ilB, zA, zB)
	vassert(len(a.handshakeCompletedCh) == 1 && len(b.handshakeCompletedCh) == 1, "both connect calls are told the result exactly once")
	vassert(<-a.handshakeCompletedCh == nil && <-b.handshakeCompletedCh == nil, "the result is success")
	vassert(!a.t1Init.isRunning() && !a.t1Cookie.isRunning(), "handshake timers are stopped")
	vobserve("il", vb2u(a.useInterleaving))
	vcover("end")
}

// C04.L1b: both sides start as clients (INIT collision).
func vh_C04_L1_simultaneous_open() {
	ilA, ilB, zA, zB := vPick(2) == 1, vPick(2) == 1, vPick(2) == 1, vPick(2) == 1
	a := vHandshakeEndpoint(ilA, zA)
	b := vHandshakeEndpoint(ilB, zB)
	a.initClient()
	b.initClient()
	dropAt := vPick(8) - 1 // one of the first six packets is lost, or none, or (6) every INIT ACK from b to a
	allInitAcks := dropAt == 6
	idx := 0
	wire := func(x, y *Association) int {
		n := 0
		for _, raw := range vWriterWake(x) {
			lost := idx == dropAt && !allInitAcks
			if allInitAcks && x == b {
				// a's INIT is never answered as far as a can see: it is established by b's COOKIE
				// ECHO, which carries the cookie a handed out while waiting (RFC 9260 5.2.4)
				if p := vDecode(raw); p != nil {
					if _, isAck := p.chunks[0].(*chunkInitAck); isAck {
						lost = true
					}
				}
			}
			if !lost {
				vInbound(y, raw)
			}
			idx++
			n++
		}
		return n
	}
	for round := 0; round < 12; round++ {
		n := wire(a, b) + wire(b, a)
		if n == 0 {
			if a.getState() == established && b.getState() == established {
				break
			}
			vFireRtx(a, a.t1Init)
			vFireRtx(a, a.t1Cookie)
			vFireRtx(b, b.t1Init)
			vFireRtx(b, b.t1Cookie)
		}
	}
	vCheckAgreement(a, b, ilA, ilB, zA, zB)
	vassert(len(a.handshakeCompletedCh) == 1 && len(b.handshakeCompletedCh) == 1, "both connect calls are told the result exactly once")
	vcover("end")
}

// C04.L2: stale or duplicated handshake chunks never disturb an established association.
func vh_C04_L2_stale_chunks_ignored() {
	a, _ := vNewAssocOpts(vAssocOpts{interleaving: vPick(2) == 1, zeroChecksum: vPick(2) == 1})
	a.myCookie = &paramStateCookie{cookie: nondetBytes(4)}
	a.sendZeroChecksum = nondetBool()
	var c chunk
	switch vPick(4) {
	case 0:
		init := &chunkInit{}
		init.initiateTag, init.initialTSN = nondetU32(), nondetU32()
		init.numOutboundStreams, init.numInboundStreams = nondetU16(), nondetU16()
		init.advertisedReceiverWindowCredit = nondetU32()
		setSupportedExtensions(&init.chunkInitCommon, nondetBool())
		if nondetBool() {
			init.params = append(init.params, &paramZeroChecksumAcceptable{edmid: dtlsErrorDetectionMethod})
		}
		c = init
	case 1:
		ack := &chunkInitAck{}
		ack.initiateTag, ack.initialTSN = nondetU32(), nondetU32()
		ack.numOutboundStreams, ack.numInboundStreams = nondetU16(), nondetU16()
		ack.advertisedReceiverWindowCredit = nondetU32()
		ack.params = []param{&paramStateCookie{cookie: nondetBytes(4)}}
		setSupportedExtensions(&ack.chunkInitCommon, nondetBool())
		c = ack
	case 2:
		c = &chunkCookieEcho{cookie: nondetBytes(4)} // any cookie, possibly ours
	case 3:
		c = &chunkCookieAck{}
	}
	if _, isAck := c.(*chunkInitAck); isAck {
		// an INIT ACK means something in COOKIE-WAIT only: a second, different one that arrives
		// while the COOKIE ECHO is outstanding, or in any later state, is discarded as well
		a.setState([]uint32{established, cookieEchoed, shutdownPending, shutdownSent, shutdownReceived, shutdownAckSent}[vPick(6)])
		a.storedCookieEcho = &chunkCookieEcho{cookie: []byte{9, 9, 9, 9}}
	}
	echoed := a.storedCookieEcho
	st := a.getState()
	il, ifw, fw, sz, rz := a.useInterleaving, a.useIForwardTSN, a.useForwardTSN, a.sendZeroChecksum, a.recvZeroChecksum
	tag, cum, next, rwnd := a.peerVerificationTag, a.peerLastTSN(), a.myNextTSN, a.rwnd
	a.handleChunksStart()
	err := a.handleChunk(&packet{sourcePort: a.destinationPort, destinationPort: a.sourcePort}, c)
	a.handleChunksEnd()
	vassert(err == nil, "handshake chunks are never fatal")
	vassert(a.getState() == st, "state unchanged")
	vassert(a.useInterleaving == il && a.useIForwardTSN == ifw && a.useForwardTSN == fw, "negotiated framing unchanged")
	vassert(a.sendZeroChecksum == sz && a.recvZeroChecksum == rz, "checksum negotiation unchanged")
	vassert(a.peerVerificationTag == tag && a.peerLastTSN() == cum && a.myNextTSN == next && a.rwnd == rwnd, "tags, TSN points and rwnd unchanged")
	vassert(!a.willSendAbort, "no ABORT is provoked")
	vassert(a.storedCookieEcho == echoed && (echoed == nil || len(echoed.cookie) == 4 && echoed.cookie[0] == 9), "the cookie being echoed is not replaced")
	vcover("end")
}

// C04.L3: a client whose peer never answers gets an error after a bounded number of retries.
func vh_C04_L3_bounded_retries() {
	a := vHandshakeEndpoint(false, false)
	a.initClient()
	inits := 0
	for i := 0; i < 12; i++ {
		for _, raw := range vWriterWake(a) {
			p := vDecode(raw)
			if _, ok := p.chunks[0].(*chunkInit); ok {
				inits++
			}
		}
		if !vFireRtx(a, a.t1Init) {
			break
		}
	}
	vassert(inits == 1+int(maxInitRetrans), "INIT is sent once and retransmitted exactly Max.Init.Retransmits times")
	vassert(len(a.handshakeCompletedCh) == 1, "the connect call is told the outcome")
	herr := <-a.handshakeCompletedCh
	vassert(herr != nil && errors.Is(herr, ErrHandshakeInitAck), "the outcome is the handshake failure error")
	vassert(!a.t1Init.isRunning(), "T1-init gives up")
	vobserve("inits", uint64(inits))
	vcover("end")
}

// C04.L1c / C13.L3: establishment from exchanged out-of-band INIT tokens (SNAP). Each
// side is given its own INIT and the peer's; all 2^4 option combinations.
func vSNAPInit(il bool, zc int) *chunkInit {
	init := &chunkInit{}
	init.initialTSN = nondetU32()
	init.numOutboundStreams, init.numInboundStreams = 65535, 65535
	init.initiateTag = 1 + nondetU32()%0xfffffffe
	init.advertisedReceiverWindowCredit = 2048 + uint32(nondetU16())*16 // each side advertises its own window
	split := 0
	if il {
		split = vPick(3) // one parameter, or the list spread over two
	}
	vSetSupportedExtensionsSplit(&init.chunkInitCommon, il, split)
	switch zc {
	case 1:
		init.params = append(init.params, &paramZeroChecksumAcceptable{edmid: dtlsErrorDetectionMethod})
	case 2: // acceptable with some other error detection method than DTLS: not an offer this stack can use
		other := nondetU32()
		vassume(other != dtlsErrorDetectionMethod)
		init.params = append(init.params, &paramZeroChecksumAcceptable{edmid: other})
	}
	return init
}

func vh_C04_L1_snap_tokens() {
	ilA, ilB, zmA, zmB := vPick(2) == 1, vPick(2) == 1, vPick(3), vPick(3)
	zA, zB := zmA == 1, zmB == 1 // zero checksums declared acceptable with the DTLS method (2: with another method)
	initA, initB := vSNAPInit(ilA, zmA), vSNAPInit(ilB, zmB)
	// with SNAP the tokens are the whole negotiation: what the association itself was created
	// with (possibly other options than its token was generated with) does not change it
	cfgMatches := vPick(2) == 1
	mk := func(local *chunkInit, il, zc bool) *Association {
		cfg := &Config{NetConn: &vConn{}, LoggerFactory: vLoggerFactory{}, Name: "v", EnableZeroChecksum: zc}
		cfg.enableInterleaving, cfg.enableInterleavingSet = il == cfgMatches, true
		a := createAssociationFromConfigWithTsn(cfg, local.initialTSN)
		a.payloadQueue = newReceivePayloadQueue(192)
		return a
	}
	a, b := mk(initA, ilA, zA), mk(initB, ilB, zB)
	vassert(a.initWithOutOfBandTokens(initA, initB) == nil, "side A establishes from the tokens")
	vassert(b.initWithOutOfBandTokens(initB, initA) == nil, "side B establishes from the tokens")
	vassert(a.getState() == established && b.getState() == established, "both sides are established")
	vassert(a.useInterleaving == (ilA && ilB) && b.useInterleaving == (ilA && ilB), "interleaving is on exactly when both enabled it")
	vassert(a.useIForwardTSN == a.useInterleaving && b.useIForwardTSN == b.useInterleaving, "the forward-TSN variant matches interleaving")
	vassert(a.useForwardTSN == !a.useInterleaving && b.useForwardTSN == !b.useInterleaving, "plain FORWARD-TSN otherwise: partial reliability stays available on both sides")
	vassert(a.sendZeroChecksum == zB && b.sendZeroChecksum == zA, "each side sends zero checksums only if the other declared them acceptable with the DTLS method")
	vassert(a.peerLastTSN() == initB.initialTSN-1 && b.peerLastTSN() == initA.initialTSN-1, "each side expects the peer's initial TSN")
	vassert(a.RWND() == initB.advertisedReceiverWindowCredit && b.RWND() == initA.advertisedReceiverWindowCredit, "each side starts with the receive window the peer's token advertises")
	vassert(a.peerVerificationTag == initB.initiateTag && b.peerVerificationTag == initA.initiateTag, "verification tags come from the peer's token")
	// and a message goes through
	a.cwnd, b.cwnd = 1<<20, 1<<20
	s, err := a.OpenStream(1, PayloadTypeWebRTCBinary)
	vassert(err == nil, "open stream")
	m := nondetBytes(1)
	_, werr := s.WriteSCTP(m, PayloadTypeWebRTCString)
	vassert(werr == nil, "write accepted")
	net := &vNet{a: a, b: b, dropAt: -1, dupAt: -1}
	net.settle(8, 1)
	bs := b.streams[1]
	vassert(bs != nil, "the peer receives on the stream")
	if bs != nil {
		got, _ := vReadAll(bs, make([]byte, 4))
		vassert(len(got) == 1 && got[0][0] == m[0], "data flows after SNAP establishment (checksums accepted by the peer)")
	}
	vcover("end")
}

// C13.L3: negotiation direction of zero checksums is part of the handshake obligations.
func vh_C13_L3_negotiation_direction_snap()      { vh_C04_L1_snap_tokens() }
func vh_C13_L3_negotiation_direction_handshake() { vh_C04_L1_client_server() }

// C04.L4: the public connect calls return when the transport is closed under them. The
// real Server / Client entry points are called with the association's loops live (they run
// whenever the calling goroutine cannot proceed, see vGoLive); the transport delivers 0..1
// handshake packets and then fails every read, as a closed connection does. The call must
// return an error instead of waiting for a handshake that can no longer complete, and the
// association it built must be torn down.
func vh_C04_L4_connect_calls_return_when_transport_closes() {
	vGoLive = true
	conn := &vConn{failReads: true}
	server := vPick(2) == 1
	if server && vPick(2) == 1 {
		// an INIT arrives first, then the peer goes away
		init := &chunkInit{}
		init.initiateTag, init.initialTSN = 1+nondetU32()%0xfffffffe, nondetU32()
		init.numOutboundStreams, init.numInboundStreams = 10, 10
		init.advertisedReceiverWindowCredit = 1500
		setSupportedExtensions(&init.chunkInitCommon, false)
		raw, err := (&packet{sourcePort: 5000, destinationPort: 5000, chunks: []chunk{init}}).marshal(true)
		vassert(err == nil, "INIT marshals")
		conn.inbound = [][]byte{raw}
	}
	cfg := Config{NetConn: conn, LoggerFactory: vLoggerFactory{}, Name: "v"}
	var a *Association
	var err error
	if server {
		vMustNotBlock("a waiting server-side connect call returns as soon as its transport is closed")
		a, err = Server(cfg)
	} else {
		vMustNotBlock("a waiting client-side connect call returns as soon as its transport is closed")
		a, err = Client(cfg)
	}
	vMayBlock()
	vassert(a == nil && err != nil, "the call fails instead of returning a half-open association")
	vassert(conn.closes <= 1, "the transport is closed at most once")
	vcover("end")
}

// C04.L5: what the handshake learns about the peer's checksum acceptance comes from a
// well-formed parameter naming the DTLS method in the latest INIT only (= C13.L3b).
func vh_C04_L5_zero_checksum_learned_from_init() { vh_C13_L3_learned_only_from_wellformed_parameter() }

// C04.L6: agreement is reached with the peer that completes the handshake: capabilities
// learned from an earlier INIT do not survive a later one (= C17.L1b).
func vh_C04_L6_agreement_follows_latest_init() { vh_C17_L1_framing_follows_latest_init() }

// C04.L2b: a stale or forged COOKIE ECHO during the handshake does not cancel the
// retransmissions. A client has sent INIT (T1-init running) and, after an INIT collision,
// has issued a cookie of its own; then a COOKIE ECHO with another cookie arrives. It is
// ignored: the state, the T1 timer and the pending retry budget are untouched, so a peer
// that then stays silent still makes the connect call fail after the bounded retries.
func vh_C04_L2_stale_cookie_echo_keeps_retries() {
	a := vHandshakeEndpoint(vPick(2) == 1, false)
	a.initClient()
	_ = vWriterWake(a)
	vassert(a.getState() == cookieWait && a.t1Init.isRunning(), "client sent INIT and started T1-init")
	// the peer's own INIT (collision): answered with an INIT ACK carrying our cookie
	init := &chunkInit{}
	init.initiateTag, init.initialTSN = 1+nondetU32()%0xfffffffe, nondetU32()
	init.numOutboundStreams, init.numInboundStreams = 10, 10
	init.advertisedReceiverWindowCredit = 1 << 16
	setSupportedExtensions(&init.chunkInitCommon, false)
	raw, err := (&packet{sourcePort: 5000, destinationPort: 5000, chunks: []chunk{init}}).marshal(true)
	vassert(err == nil, "INIT marshals")
	vInbound(a, raw)
	_ = vWriterWake(a)
	vassert(a.myCookie != nil, "a cookie was issued")
	stale := nondetBytes(len(a.myCookie.cookie))
	vassume(!vBytesEq(stale, a.myCookie.cookie))
	echo, eerr := (&packet{sourcePort: 5000, destinationPort: 5000, verificationTag: a.myVerificationTag, chunks: []chunk{&chunkCookieEcho{cookie: stale}}}).marshal(true)
	vassert(eerr == nil, "COOKIE ECHO marshals")
	vInbound(a, echo)
	vassert(a.getState() == cookieWait, "a COOKIE ECHO with another cookie does not establish anything")
	vassert(a.t1Init.isRunning(), "and does not cancel the INIT retransmissions")
	vassert(len(a.handshakeCompletedCh) == 0, "the connect call is told nothing yet")
	// the peer stays silent: the retries are bounded and end in an error
	inits := 0
	for i := 0; i < 12; i++ {
		for _, out := range vWriterWake(a) {
			if p := vDecode(out); p != nil {
				for _, c := range p.chunks {
					if _, ok := c.(*chunkInit); ok {
						inits++
					}
				}
			}
		}
		if !vFireRtx(a, a.t1Init) {
			break
		}
	}
	vassert(inits >= 1, "INIT is retransmitted after the stale COOKIE ECHO")
	vassert(len(a.handshakeCompletedCh) == 1, "after the bounded retries the connect call is told the handshake failed")
	vcover("end")
}

// C04.L2c: an INIT is answered in every state of the handshake in which the peer may still
// need the answer. A client that has already echoed a cookie (COOKIE-ECHOED) receives an
// INIT (simultaneous open, or the peer restarted after its INIT ACK): it answers with an
// INIT ACK carrying a cookie, and stays in COOKIE-ECHOED with T1-cookie running.
func vh_C04_L2_init_answered_in_cookie_echoed() {
	a := vHandshakeEndpoint(vPick(2) == 1, false)
	a.initClient()
	_ = vWriterWake(a)
	ack := &chunkInitAck{}
	ack.initiateTag, ack.initialTSN = 1+nondetU32()%0xfffffffe, nondetU32()
	ack.numOutboundStreams, ack.numInboundStreams = 10, 10
	ack.advertisedReceiverWindowCredit = 1 << 16
	setSupportedExtensions(&ack.chunkInitCommon, false)
	ack.params = append(ack.params, &paramStateCookie{cookie: nondetBytes(4)})
	raw, err := (&packet{sourcePort: 5000, destinationPort: 5000, verificationTag: a.myVerificationTag, chunks: []chunk{ack}}).marshal(true)
	vassert(err == nil, "INIT ACK marshals")
	vInbound(a, raw)
	_ = vWriterWake(a)
	vassert(a.getState() == cookieEchoed && a.t1Cookie.isRunning(), "cookie echoed, T1-cookie running")
	init := &chunkInit{}
	init.initiateTag, init.initialTSN = 1+nondetU32()%0xfffffffe, nondetU32()
	init.numOutboundStreams, init.numInboundStreams = 10, 10
	init.advertisedReceiverWindowCredit = 1 << 16
	setSupportedExtensions(&init.chunkInitCommon, false)
	rawInit, ierr := (&packet{sourcePort: 5000, destinationPort: 5000, chunks: []chunk{init}}).marshal(true)
	vassert(ierr == nil, "INIT marshals")
	vInbound(a, rawInit)
	answered := false
	for _, out := range vWriterWake(a) {
		if p := vDecode(out); p != nil {
			for _, c := range p.chunks {
				if ia, ok := c.(*chunkInitAck); ok {
					for _, prm := range ia.params {
						if _, ok := prm.(*paramStateCookie); ok {
							answered = true
						}
					}
					vassert(p.verificationTag == init.initiateTag, "the INIT ACK carries the tag of the INIT it answers")
				}
			}
		}
	}
	vassert(answered, "an INIT received in COOKIE-ECHOED is answered with an INIT ACK carrying a cookie")
	vassert(a.getState() == cookieEchoed, "the state does not change")
	vcover("end")
}

// C04.L3b: the handshake retries are bounded by the configured RTO.max, also one below the
// protocol minimum (= C19.L3b).
func vh_C04_L3_retries_bounded_by_configured_rto_max() { vh_C19_L3_armed_duration() }

// C04.L6b: on the client side too, agreement is reached with the peer that answers: an INIT
// from an earlier incarnation of the peer, received in COOKIE-WAIT, does not leak its
// capabilities into what is negotiated from the INIT ACK that is finally honoured.
func vh_C04_L6_agreement_follows_init_ack() {
	localIl := vPick(2) == 1
	a := vHandshakeEndpoint(localIl, false)
	a.initClient()
	_ = vWriterWake(a)
	il1, il2 := vPick(2) == 1, vPick(2) == 1
	init := &chunkInit{}
	init.initiateTag, init.initialTSN = 1+nondetU32()%0xfffffffe, nondetU32()
	init.numOutboundStreams, init.numInboundStreams = 10, 10
	init.advertisedReceiverWindowCredit = 1 << 16
	setSupportedExtensions(&init.chunkInitCommon, il1)
	rawInit, err := (&packet{sourcePort: 5000, destinationPort: 5000, chunks: []chunk{init}}).marshal(true)
	vassert(err == nil, "INIT marshals")
	vInbound(a, rawInit)
	_ = vWriterWake(a)
	ack := &chunkInitAck{}
	ack.initiateTag, ack.initialTSN = 1+nondetU32()%0xfffffffe, nondetU32()
	ack.numOutboundStreams, ack.numInboundStreams = 10, 10
	ack.advertisedReceiverWindowCredit = 1 << 16
	vSetSupportedExtensionsSplit(&ack.chunkInitCommon, il2, vPick(3))
	ack.params = append(ack.params, &paramStateCookie{cookie: nondetBytes(4)})
	rawAck, aerr := (&packet{sourcePort: 5000, destinationPort: 5000, verificationTag: a.myVerificationTag, chunks: []chunk{ack}}).marshal(true)
	vassert(aerr == nil, "INIT ACK marshals")
	vInbound(a, rawAck)
	vassert(a.getState() == cookieEchoed, "the INIT ACK is honoured")
	vassert(a.peerInterleaving == il2 && a.peerIForwardTSN == il2, "what the peer supports is what the honoured INIT ACK lists")
	vassert(a.useInterleaving == (localIl && il2), "interleaving follows the INIT ACK, not an earlier INIT")
	vassert(a.useIForwardTSN == a.useInterleaving && a.useForwardTSN == !a.useInterleaving, "the forward-TSN variant follows")
	vcover("end")
}

// C04.L2d: a COOKIE ACK means something only to an endpoint that has echoed a cookie. In
// every other state (a server still listening, a client that has only sent INIT, an
// established or closing association) a stale COOKIE ACK changes nothing: no state change,
// no result handed to a connect call, timers untouched.
func vh_C04_L2_cookie_ack_only_in_cookie_echoed() {
	a := vHandshakeEndpoint(false, false)
	client := vPick(2) == 1
	if client {
		a.initClient()
		_ = vWriterWake(a)
	} else {
		a.initServer()
	}
	states := []uint32{closed, cookieWait, established, shutdownPending, shutdownSent, shutdownReceived, shutdownAckSent}
	if !client || vPick(2) == 1 {
		a.setState(states[vPick(len(states))])
	}
	st := a.getState()
	vassume(st != cookieEchoed)
	t1 := a.t1Init.isRunning()
	raw, err := (&packet{sourcePort: 5000, destinationPort: 5000, verificationTag: a.myVerificationTag, chunks: []chunk{&chunkCookieAck{}}}).marshal(true)
	vassert(err == nil, "COOKIE ACK marshals")
	vInbound(a, raw)
	vassert(a.getState() == st, "a COOKIE ACK outside COOKIE-ECHOED does not change the state")
	vassert(len(a.handshakeCompletedCh) == 0, "and hands no result to a connect call")
	vassert(a.t1Init.isRunning() == t1, "and leaves the INIT retransmissions as they were")
	vcover("end")
}

// vSetSupportedExtensionsSplit lists the supported chunk types like setSupportedExtensions,
// in one Supported Extensions parameter (split 0) or spread over two of them, the interleaving
// pair first (1) or last (2): what a peer supports is the union of everything it lists.
func vSetSupportedExtensionsSplit(init *chunkInitCommon, il bool, split int) {
	if split == 0 || !il {
		setSupportedExtensions(init, il)
		return
	}
	base := &paramSupportedExtensions{ChunkTypes: []chunkType{ctReconfig, ctForwardTSN}}
	ild := &paramSupportedExtensions{ChunkTypes: []chunkType{ctIData, ctIForwardTSN}}
	if split == 1 {
		init.params = append(init.params, ild, base)
	} else {
		init.params = append(init.params, base, ild)
	}
}

// C04.L7: the result of the handshake waits for the connect call. The handler that completes
// the handshake (COOKIE ACK, COOKIE ECHO, or a T1 timer that ran out of retries) offers the
// result on an unbuffered channel; the goroutine of the connect call may not have reached its
// wait yet (it was started first but is scheduled later). The offer stays up until it is taken:
// the result, success or failure, is never dropped, and the connect call returns.
func vh_C04_L7_handshake_result_waits_for_the_connect_call() {
	a := vHandshakeEndpoint(vPick(2) == 1, false)
	var result error
	if vPick(2) == 1 {
		result = ErrHandshakeInitAck // a failed handshake is reported the same way
	}
	a.handshakeCompletedCh = make(chan error) // unbuffered, as the constructor makes it
	done := make(chan error, 1)
	vGoLive = true
	vGo(func() {
		vSleep(50 * time.Millisecond) // the connect call reaches its wait only now
		done <- <-a.handshakeCompletedCh
	})
	a.lock.Lock() // the handlers run under the association lock
	vMustNotBlock("the handshake result is taken by the waiting connect call")
	sent := a.completeHandshake(result)
	vMayBlock()
	a.lock.Unlock()
	vassert(sent, "the result is handed to the connect call, not dropped")
	got := <-done
	vassert(got == result, "the connect call returns what the handshake ended with")
	vcover("end")
}

// C04.L8: what is negotiated is read from every parameter of the INIT / INIT ACK, whatever
// parameters this implementation does not know stand in front of them (= C12.L4).
func vh_C04_L8_negotiation_reads_past_unknown_parameters() {
	vh_C12_L4_init_unknown_parameter_is_skipped()
}
