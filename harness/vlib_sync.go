//go:build verif

package sctp

// Blocking, condition-variable and lock-order obligations. The symbolic engine intercepts
// vMustNotBlock / vMayBlock / vCondPark / vCondParked / vOnMain by name; the bodies here are
// their native meaning in replays. The ranked lock types are ordinary Go code that both the
// engine and the native build execute.

import (
	"reflect"
	"runtime"
	"sync"
	"sync/atomic"
	"time"
)

// vMustNotBlock opens a section in which the calls made must return: in the engine a
// channel operation, select or Cond.Wait that can never proceed ends the path with a
// violation carrying msg; natively the replay watchdog reports the hang with msg.
var vNoBlockMsg string

func vMustNotBlock(msg string) { vNoBlockMsg = msg }
func vMayBlock()               { vNoBlockMsg = "" }

// vCondPark stands for n goroutines parked in c.Wait() (the caller does not hold c.L).
// Natively they are real goroutines; each leaves when it is woken once.
var vParked = map[*sync.Cond]*int32{}

func vCondPark(c *sync.Cond, n int) {
	cnt := new(int32)
	vParked[c] = cnt
	for i := 0; i < n; i++ {
		go func() {
			c.L.Lock()
			atomic.AddInt32(cnt, 1)
			c.Wait()
			atomic.AddInt32(cnt, -1)
			c.L.Unlock()
		}()
	}
	for atomic.LoadInt32(cnt) != int32(n) {
		time.Sleep(time.Millisecond)
	}
	// every waiter incremented under c.L and Wait released it atomically: once the lock can
	// be taken here, all of them are parked
	c.L.Lock()
	c.L.Unlock() //nolint:staticcheck
}

// vCondParked is the number of those goroutines that have not been woken.
func vCondParked(c *sync.Cond) int {
	cnt := vParked[c]
	if cnt == nil {
		return 0
	}
	// woken waiters need the processor to leave: wait for the count to reach zero, up to 3 s
	// (a waiter that was never woken stays parked for good, so a non-zero answer is stable)
	for i := 0; i < 300 && atomic.LoadInt32(cnt) != 0; i++ {
		time.Sleep(10 * time.Millisecond)
	}
	return int(atomic.LoadInt32(cnt))
}

// ---- lock hierarchy (C20)
//
// In the overlay copy of association.go / stream.go used by the engine and by native
// replays, the declarations `lock sync.RWMutex` (Association, Stream) and
// `writeLock sync.Mutex` (Stream) are retyped to the wrappers below (patchedSources in
// /verif/engine/main.go). They behave exactly like the embedded mutex and additionally keep
// the list of ranks held by the harness goroutine: taking a lock while holding one of the
// same or a higher rank is an acquisition against the hierarchy
//
//	Stream.writeLock (0)  <  Association.lock (1)  <  Stream.lock (2)  <  Association.timerMu (3)
//
// and, with another goroutine acquiring in hierarchy order, a deadlock. Goroutines of the
// code under check that run live (vGoLive) are tracked too: natively each has its own list
// (keyed by goroutine id); in the engine, where they run while the harness goroutine is
// parked, the engine swaps the list around them (runQueued).
var (
	vHeldRanks  []int
	vMainGoid   uint64
	vOtherMu    sync.Mutex
	vOtherRanks = map[uint64]*[]int{}
	vAsyncMsg   string // native only: an assertion that failed on a goroutine other than the harness one
)

// vRanks: the list of ranks held by the calling goroutine.
func vRanks() *[]int {
	if vOnMain() {
		return &vHeldRanks
	}
	id := vGoid()
	vOtherMu.Lock()
	defer vOtherMu.Unlock()
	p := vOtherRanks[id]
	if p == nil {
		p = new([]int)
		vOtherRanks[id] = p
	}
	return p
}

func vRankAssert(c bool, msg string) {
	if c {
		return
	}
	if vOnMain() {
		vassert(false, msg)
		return
	}
	vOtherMu.Lock()
	if vAsyncMsg == "" {
		vAsyncMsg = msg
	}
	vOtherMu.Unlock()
}

func vGoid() uint64 {
	var buf [64]byte
	n := runtime.Stack(buf[:], false)
	// "goroutine 123 ["
	var id uint64
	for _, ch := range buf[10:n] {
		if ch < '0' || ch > '9' {
			break
		}
		id = id*10 + uint64(ch-'0')
	}
	return id
}

// vOnMain: is this the goroutine that runs the harness (always, in the engine: the rank list is swapped around queued goroutines)?
func vOnMain() bool { return vMainGoid == 0 || vGoid() == vMainGoid }

var vRankNames = [...]string{"Stream.writeLock", "Association.lock", "Stream.lock", "Association.timerMu"}

func vLockAcquire(rank int) {
	if vRaceMode && !vOnMain() {
		return // the touchers of a lockset replay are not code under check
	}
	vMaybePreempt() // the other goroutine may get in just before this lock is taken
	held := vRanks()
	for _, h := range *held {
		vRankAssert(h < rank, "lock hierarchy: "+vRankNames[rank]+" is acquired while "+vRankNames[h]+" is held")
	}
	*held = append(*held, rank)
}

func vLockTaken(rank int) {
	if vRaceMode && !vOnMain() {
		return
	}
	held := vRanks()
	*held = append(*held, rank)
}

func vLockRelease(rank int) {
	if !vOnMain() {
		if !vRaceMode {
			held := vRanks()
			for i := len(*held) - 1; i >= 0; i-- {
				if (*held)[i] == rank {
					*held = append((*held)[:i], (*held)[i+1:]...)
					break
				}
			}
		}
		return
	}
	if vRaceMode {
		// race-detector confirmation of a lockset report: leave every unlocked window of the
		// harness goroutine open long enough for the touchers to get in (see vGuardedBy)
		time.Sleep(300 * time.Microsecond)
	}
	for i := len(vHeldRanks) - 1; i >= 0; i-- {
		if vHeldRanks[i] == rank {
			vHeldRanks = append(vHeldRanks[:i], vHeldRanks[i+1:]...)
			break
		}
	}
	vMaybePreempt()
}

// vMaybePreempt is one context switch (vPreemptWith): at any point where the harness
// goroutine has just released a lock, or is about to take one, and holds none, a second API
// call may run to completion before the first continues. Every such schedule is a real one
// (the second goroutine simply gets the processor there); the choice is part of the replay
// vector, so the native replay takes the same switch.
// vHarnessGoroutine: the goroutine that runs the harness function, as opposed to one it
// queued (vGo); in the engine too.
func vHarnessGoroutine() bool { return vOnMain() }

// vPreemptIgnoreRank: a lock rank the first call may hold at the switch because the second
// call never takes it (-1: none). Blocking writes hold Stream.writeLock (rank 0) throughout.
var vPreemptIgnoreRank = -1

func vHoldsOnlyIgnoredRank() bool {
	for _, h := range vHeldRanks {
		if h != vPreemptIgnoreRank {
			return false
		}
	}
	return true
}

func vMaybePreempt() {
	if vPreemptBody != nil && vHarnessGoroutine() && vHoldsOnlyIgnoredRank() {
		if vPick(2) == 1 {
			f := vPreemptBody
			vPreemptBody = nil
			f()
		}
	}
}

// vPreemptWith arms one context switch to f (see vLockRelease).
var vPreemptBody func()

func vPreemptWith(f func()) { vPreemptBody = f }

type vLkAssoc struct{ sync.RWMutex }

func (l *vLkAssoc) Lock()    { vLockAcquire(1); l.RWMutex.Lock() }
func (l *vLkAssoc) Unlock()  { l.RWMutex.Unlock(); vLockRelease(1) }
func (l *vLkAssoc) RLock()   { vLockAcquire(1); l.RWMutex.RLock() }
func (l *vLkAssoc) RUnlock() { l.RWMutex.RUnlock(); vLockRelease(1) }
func (l *vLkAssoc) TryLock() bool {
	ok := l.RWMutex.TryLock()
	if ok {
		vLockTaken(1)
	}
	return ok
}

type vLkStream struct{ sync.RWMutex }

func (l *vLkStream) Lock()    { vLockAcquire(2); l.RWMutex.Lock() }
func (l *vLkStream) Unlock()  { l.RWMutex.Unlock(); vLockRelease(2) }
func (l *vLkStream) RLock()   { vLockAcquire(2); l.RWMutex.RLock() }
func (l *vLkStream) RUnlock() { l.RWMutex.RUnlock(); vLockRelease(2) }
func (l *vLkStream) TryLock() bool {
	ok := l.RWMutex.TryLock()
	if ok {
		vLockTaken(2)
	}
	return ok
}

type vLkWrite struct{ sync.Mutex }

func (l *vLkWrite) Lock()   { vLockAcquire(0); l.Mutex.Lock() }
func (l *vLkWrite) Unlock() { l.Mutex.Unlock(); vLockRelease(0) }
func (l *vLkWrite) TryLock() bool {
	ok := l.Mutex.TryLock()
	if ok {
		vLockTaken(0)
	}
	return ok
}

// ---- lockset discipline (C20)
//
// vGuardedBy(field, lock, name) declares that *field belongs to lock: from here on the
// engine reports any read of it by code of the package with the lock not held, and any
// write with the lock not held exclusively (harness code itself is exempt). The native
// confirmation of such a report runs under the race detector: a goroutine that keeps
// touching the field under the lock runs beside the harness, so the unguarded access of the
// counterexample path is a data race the detector sees.
var (
	vRaceMode   bool
	vRaceShared bool // the report is a store under a read lock: touchers read under read locks only
	vRaceStop   chan struct{}
)

func vGuardedBy(field any, lock any, name string) {
	if !vRaceMode {
		return
	}
	l := lock.(sync.Locker)
	v := reflect.ValueOf(field).Elem()
	stop := vRaceStop
	started := make(chan struct{})
	var once sync.Once
	defer func() {
		<-started // the toucher is running; what it does from now on is unordered with the harness
	}()
	go func() {
		for {
			select {
			case <-stop:
				return
			default:
			}
			if rl, ok := lock.(interface {
				RLock()
				RUnlock()
			}); ok && vRaceShared {
				// a store made under a read lock is unordered with other read-lock holders (and a
				// toucher that took the lock exclusively would order everything through itself)
				rl.RLock()
				reflect.New(v.Type()).Elem().Set(v) // read the field, under its lock held shared
				rl.RUnlock()
			} else {
				l.Lock()
				v.Set(v) // read and write the field, under its lock
				l.Unlock()
			}
			once.Do(func() { close(started) })
			time.Sleep(20 * time.Microsecond)
		}
	}()
}

// ---- goroutines started by the code under check that a harness runs at a chosen point
//
// The read-deadline goroutine of Stream.SetReadDeadline is queued by vSpawnCh in the overlay
// copy of stream.go (see patchedSources) instead of being started; vRunSpawned runs the
// queued bodies to completion, one after the other, where the scenario says the deadline
// passes. Ordinary Go code in both worlds.
var vSpawned []func()

func vSpawnCh(f func(chan struct{}), ch chan struct{}) {
	vSpawned = append(vSpawned, func() { f(ch) })
}

func vRunSpawned() int {
	n := 0
	for len(vSpawned) > 0 {
		f := vSpawned[0]
		vSpawned = vSpawned[1:]
		f()
		n++
	}
	return n
}

// vSleep lets d pass on the clock the code under check reads (engine: the concrete clock
// jumps; native: a real sleep).
func vSleep(d time.Duration) { time.Sleep(d) }

type vLkTimer struct{ sync.Mutex }

func (l *vLkTimer) Lock()   { vLockAcquire(3); l.Mutex.Lock() }
func (l *vLkTimer) Unlock() { l.Mutex.Unlock(); vLockRelease(3) }
func (l *vLkTimer) TryLock() bool {
	ok := l.Mutex.TryLock()
	if ok {
		vLockTaken(3)
	}
	return ok
}

// vWorkBegin(k, msg) .. vWorkEnd(): a bound on the work done by the code in between. Engine:
// at most k interpreted instructions, more is a violation. Native (violation replays only):
// the section must not take longer than k x 10 ns on the wall clock.
var (
	vWorkStart time.Time
	vWorkK     int
	vWorkMsg   string
)

func vWorkBegin(k int, msg string) { vWorkStart, vWorkK, vWorkMsg = time.Now(), k, msg }

func vWorkEnd() {
	if vRealtime && vWorkK > 0 && time.Since(vWorkStart) > time.Duration(vWorkK)*10*time.Nanosecond {
		vWorkK = 0
		panic(vAssertFail{vWorkMsg})
	}
	vWorkK = 0
}
