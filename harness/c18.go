//go:build verif

package sctp

import (
	"errors"
	"io"
	"os"
	"time"
)

// C18 — write/read API contract: rejected or failed calls have no side effects.

// C18.L1: oversized, empty and closed-stream writes send nothing and do not disturb the
// delivery of the next message (two-party: the following message is still delivered).
func vh_C18_L1_rejected_writes_no_effect() {
	il := vPick(2) == 1
	a, b := vPair(vAssocOpts{interleaving: il, pickTSN: true, blockWrite: vPick(2) == 1})
	limitFirst := vPick(2) == 1 // the limit is set before the stream exists, or lowered afterwards
	if limitFirst {
		a.SetMaxMessageSize(4)
	}
	s, err := a.OpenStream(1, PayloadTypeWebRTCBinary)
	vassert(err == nil, "open stream")
	if !limitFirst {
		a.SetMaxMessageSize(4)
	}
	vassert(a.MaxMessageSize() == 4, "the limit is in force")
	unordered := vPick(2) == 1
	s.SetReliabilityParams(unordered, ReliabilityTypeReliable, 0)
	ssn, omid, umid := s.sequenceNumber, s.nextOrderedMID, s.nextUnorderedMID
	kind := vPick(2)
	switch kind {
	case 0: // larger than the maximum message size
		n, werr := s.WriteSCTP(make([]byte, 5), PayloadTypeWebRTCBinary)
		vassert(werr != nil && n == 0, "a write larger than the maximum message size is rejected")
	case 1: // empty
		n, _ := s.WriteSCTP([]byte{}, PayloadTypeWebRTCBinary)
		vassert(n == 0, "an empty write transfers nothing")
	}
	vassert(a.pendingQueue.size() == 0, "nothing is queued by the rejected / empty write")
	vassert(vLocksFree(a, s) && !vMutexHeldNative(&s.writeLock), "and no lock is left held by it (also not the per-stream write lock of blocking-write mode)")
	vassert(s.BufferedAmount() == 0, "buffered amount untouched")
	vassert(s.sequenceNumber == ssn && s.nextOrderedMID == omid && s.nextUnorderedMID == umid, "no stream sequence number or message identifier is consumed")
	// a write of exactly the maximum size is accepted, and is delivered
	msg := nondetBytes(4)
	n, werr := s.WriteSCTP(msg, PayloadTypeWebRTCString)
	vassert(werr == nil && n == 4, "a write of exactly the maximum message size is accepted")
	net := &vNet{a: a, b: b, dropAt: -1, dupAt: -1}
	net.settle(12, 2)
	bs := b.streams[1]
	vassert(bs != nil, "receiver has the stream")
	if bs != nil {
		got, _ := vReadAll(bs, make([]byte, 16))
		vassert(len(got) == 1 && vBytesEq(got[0], msg), "the message after the rejected / empty write is delivered normally")
	}
	vcover("end")
}

// C18.L1b: write on a closed stream.
func vh_C18_L1_closed_stream_write() {
	a, _ := vNewAssoc()
	s, err := a.OpenStream(1, PayloadTypeWebRTCBinary)
	vassert(err == nil, "open stream")
	vassert(s.Close() == nil, "close")
	pend := a.pendingQueue.size()
	ssn := s.sequenceNumber
	n, werr := s.WriteSCTP(nondetBytes(2), PayloadTypeWebRTCBinary)
	vassert(werr != nil && n == 0, "write on a closed stream is rejected")
	vassert(a.pendingQueue.size() == pend && s.sequenceNumber == ssn && s.BufferedAmount() == 0, "the rejected write has no effect")
	vcover("end")
}

// C18.L2: blocking-write gate. With BlockWrite a second write waits until the pending
// queue has been handed to the transmission queue; a deadline makes it fail without effect.
func vh_C18_L2_block_write_gate() {
	a, _ := vNewAssocOpts(vAssocOpts{blockWrite: true, interleaving: vPick(2) == 1})
	s, err := a.OpenStream(1, PayloadTypeWebRTCBinary)
	vassert(err == nil, "open stream")
	// the stream has carried any number of messages before (sequence numbers anywhere, wraps included)
	s.sequenceNumber = nondetU16()
	s.nextOrderedMID, s.nextUnorderedMID = nondetU32(), nondetU32()
	s.SetReliabilityParams(vPick(2) == 1, ReliabilityTypeReliable, 0)
	n, werr := s.WriteSCTP(nondetBytes(2), PayloadTypeWebRTCBinary)
	vassert(werr == nil && n == 2, "first write accepted")
	vassert(a.writePending, "the gate is closed while data is pending")
	ssn, omid, umid, buffered := s.sequenceNumber, s.nextOrderedMID, s.nextUnorderedMID, s.BufferedAmount()
	switch vPick(2) {
	case 0:
		// deadline already passed: the second write must fail and leave no trace
		s.writeDeadline = deadlineExceeded()
		n, werr = s.WriteSCTP(nondetBytes(3), PayloadTypeWebRTCBinary)
		vassert(werr != nil && n == 0, "a blocking write that hits its deadline fails")
		vassert(a.pendingQueue.size() == 1, "the failed write queues nothing")
		vassert(s.sequenceNumber == ssn && s.nextOrderedMID == omid && s.nextUnorderedMID == umid && s.BufferedAmount() == buffered, "the failed write restores sequence number, message identifiers and buffered amount (at every value, wraps included)")
		vcover("deadline")
	case 1:
		// the writer drains the pending queue: the gate opens exactly then
		a.cwnd = 1 << 20
		a.rwnd = []uint32{1 << 20, 0}[vPick(2)] // with a zero peer window the last pending chunk leaves as the window probe
		pkts := vWriterPass(a)
		vassert(len(pkts) >= 1 && a.pendingQueue.size() == 0, "pending data handed to transmission")
		vassert(!a.writePending, "the gate opens once everything pending has been handed over")
		n, werr = s.WriteSCTP(nondetBytes(3), PayloadTypeWebRTCBinary)
		vassert(werr == nil && n == 3, "the next write proceeds")
		vcover("drained")
	}
}

// C18.L2b: a failed write restores exactly the counter it consumed (same obligation as vh_C15_L1).
func vh_C18_L2_failed_write_restores_numbers() { vh_C15_L1_write_accounting() }

// C18.L2c: a writer parked behind the gate when a graceful shutdown begins (local or
// peer-initiated) is released with an error and queues nothing (same obligation as C08.L2).
func vh_C18_L2_parked_writer_rejected_at_shutdown() { vh_C08_L2_parked_writer_rejected() }

// C18.L4: the read deadline. A stream holds 0..1 readable message; a deadline is armed (the
// deadline goroutine is queued, see vSpawnCh) and then, in every order the scenario
// allows: the deadline passes, a too-small read is attempted, the deadline is re-armed or
// cleared, the stream is reset by the peer (end-of-file) or torn down. Obligations: a
// blocked or later read returns at the deadline with the deadline error instead of
// waiting; no message is lost or duplicated; a short read does not disarm the deadline; a
// replaced or cleared deadline never fires; the first terminal error (EOF, close) is never
// overwritten by a later deadline expiry.
func vh_C18_L4_read_deadline() {
	a, _ := vNewAssoc()
	cum := a.peerLastTSN()
	hasMsg := vPick(2) == 1
	if hasMsg {
		c := vDataChunk(a, cum+1, 3, true, 2)
		vassert(vDeliver(a, c) == nil, "DATA ok")
	} else {
		_, _ = a.OpenStream(3, PayloadTypeWebRTCBinary)
	}
	s := a.streams[3]
	vassert(s != nil, "stream exists")
	buf := make([]byte, 8)
	small := vPick(2) // a too-small read uses a buffer of one byte, or of none at all
	if !hasMsg && vPick(2) == 1 {
		// a reader is already blocked on the empty stream when a deadline that has already
		// passed is set (the SetReadDeadline(time.Now()) idiom): it must be released
		vCondPark(s.readNotifier, 1)
		vassert(s.SetReadDeadline(time.Now().Add(-time.Second)) == nil, "deadline in the past accepted")
		vRunSpawned()
		vassert(errors.Is(s.readErr, ErrReadDeadlineExceeded), "the deadline error is posted")
		vassert(vCondParked(s.readNotifier) == 0, "a reader blocked before the deadline was set is released")
		vcover("end")
		return
	}
	vassert(s.SetReadDeadline(time.Now().Add(20*time.Millisecond)) == nil, "deadline armed")
	vassert(len(vSpawned) == 1 && s.readTimeoutCancel != nil, "the deadline is pending")
	switch vPick(5) {
	case 0: // the deadline simply passes
		vassert(vRunSpawned() == 1, "deadline goroutine ran")
		vassert(errors.Is(s.readErr, ErrReadDeadlineExceeded), "the deadline error is posted for readers")
	case 1: // a too-small read first: the message stays, the deadline stays armed
		if hasMsg {
			n, _, rerr := s.ReadSCTP(buf[:small])
			vassert(n == 2 && errors.Is(rerr, io.ErrShortBuffer), "short-buffer error reporting the size needed")
			vassert(s.readTimeoutCancel != nil, "a short read leaves the deadline armed")
		}
		vRunSpawned()
		vassert(errors.Is(s.readErr, ErrReadDeadlineExceeded), "the deadline still fires after a short read")
	case 2: // the deadline is replaced before it passes: the old one never fires
		vassert(s.SetReadDeadline(time.Now().Add(time.Hour)) == nil, "re-armed")
		vassert(len(vSpawned) == 2, "a new deadline goroutine")
		first := vSpawned[0]
		vSpawned = vSpawned[1:]
		first()
		vassert(s.readErr == nil, "a replaced deadline does not fire")
		vSpawned = nil // the far deadline stays pending
		if hasMsg {
			n, _, rerr := s.ReadSCTP(buf)
			vassert(n == 2 && rerr == nil, "the message is read normally")
		}
		vcover("end")
		return
	case 3: // the deadline is cleared before it passes
		vassert(s.SetReadDeadline(time.Time{}) == nil, "cleared")
		vassert(s.readTimeoutCancel == nil, "no deadline pending")
		vRunSpawned()
		vassert(s.readErr == nil, "a cleared deadline does not fire")
		vcover("end")
		return
	case 4: // end-of-file or teardown arrives first; the deadline passes afterwards
		var want error = io.EOF
		if vPick(2) == 1 {
			a.lock.Lock()
			a.unregisterStream(s, io.EOF)
			a.lock.Unlock()
		} else {
			want = ErrChunk
			a.lock.Lock()
			a.unregisterStream(s, ErrChunk)
			a.lock.Unlock()
		}
		vRunSpawned()
		vassert(errors.Is(s.readErr, want) && !errors.Is(s.readErr, ErrReadDeadlineExceeded), "a deadline that passes after end-of-file or teardown does not replace that error")
		if hasMsg {
			n, _, rerr := s.ReadSCTP(buf[:small])
			vassert(n == 2 && errors.Is(rerr, io.ErrShortBuffer), "a too-small read of data received before the end reports the short buffer, not the terminal error")
			n, _, rerr = s.ReadSCTP(buf)
			vassert(n == 2 && rerr == nil, "data received before the end is still read first")
		}
		// arming or clearing a read deadline afterwards (the SetReadDeadline-then-Read idiom)
		// does not make the stream forget that it has ended
		switch vPick(3) {
		case 1:
			_ = s.SetReadDeadline(time.Time{})
		case 2:
			_ = s.SetReadDeadline(time.Now().Add(time.Hour))
		}
		vSpawned = nil
		vMustNotBlock("a read after end-of-file returns")
		_, _, rerr := s.ReadSCTP(buf)
		vMayBlock()
		vassert(errors.Is(rerr, want), "then the terminal error")
		vcover("end")
		return
	}
	// the deadline has passed: reads return instead of blocking, data first
	if hasMsg {
		ns, _, serr := s.ReadSCTP(buf[:small])
		vassert(ns == 2 && errors.Is(serr, io.ErrShortBuffer), "a too-small read after the deadline still reports the short buffer and keeps the message")
		vMustNotBlock("a read with data available returns")
		n, _, rerr := s.ReadSCTP(buf)
		vMayBlock()
		vassert(n == 2 && rerr == nil, "the message that arrived before the deadline is not lost")
	}
	vMustNotBlock("a read on an empty stream returns at the deadline instead of blocking")
	n, _, rerr := s.ReadSCTP(buf[:8*small]) // into a buffer of any size, also an empty one
	vMayBlock()
	vassert(n == 0 && errors.Is(rerr, ErrReadDeadlineExceeded), "deadline error, no duplicate of the message")
	vassert(errors.Is(rerr, os.ErrDeadlineExceeded), "recognisable as os.ErrDeadlineExceeded")
	// a message that arrives while the expired deadline is still posted (a polling reader
	// between two reads) is kept: it is acknowledged to the sender, so it must be readable
	next := cum + 1
	if hasMsg {
		next = cum + 2
	}
	vassert(vDeliver(a, vDataChunk(a, next, 3, true, 2)) == nil, "DATA ok")
	vassert(a.peerLastTSN() == next, "the late message is acknowledged")
	// clearing the deadline makes the stream usable again
	vassert(s.SetReadDeadline(time.Time{}) == nil && s.readErr == nil, "clearing the deadline removes the deadline error")
	vMustNotBlock("a read with data available returns")
	n, _, rerr = s.ReadSCTP(buf)
	vMayBlock()
	vassert(n == 2 && rerr == nil, "a message that arrived while the deadline error was posted is delivered")
	vcover("end")
}

// C18.L5: a blocking write that fails after having waited - at its deadline, with other calls
// going on around it - has no side effects: its number is given back, nothing is queued, the
// gate stays usable (= C20.L9), and acknowledgements processed meanwhile are kept (= C15.L7).
func vh_C18_L5_failed_parked_write_has_no_side_effects() {
	vh_C20_L9_parked_write_fails_while_others_go_on()
}
func vh_C18_L5_failed_parked_write_keeps_concurrent_acks() {
	vh_C15_L7_failed_blocking_write_keeps_concurrent_release()
}

// C18.L6: every writer parked behind the blocking-write gate is released when the
// association leaves ESTABLISHED, also when the gate had just been opened for one of them.
// A message is waiting (gate closed, writers park on the hand-over channel); optionally the
// writer drains the queue (one token is posted); then the peer's SHUTDOWN arrives, Shutdown
// is called, or the association is closed: the channel the parked writers wait on is closed,
// so each of them wakes, sees the state and fails instead of waiting for ever.
func vh_C18_L6_every_parked_writer_is_released_at_shutdown() {
	a, _ := vNewAssocOpts(vAssocOpts{blockWrite: true})
	s, err := a.OpenStream(1, PayloadTypeWebRTCBinary)
	vassert(err == nil, "open stream")
	_, werr := s.WriteSCTP(nondetBytes(2), PayloadTypeWebRTCBinary)
	vassert(werr == nil && a.writePending, "a message is waiting, the gate is closed")
	parkedOn := a.writeNotify
	a.cwnd, a.rwnd = 1<<20, 1<<20
	if vPick(2) == 1 {
		vassert(len(vWriterPass(a)) == 1 && !a.writePending, "the queue drains, the gate opens for one writer")
	}
	switch vPick(3) {
	case 0:
		vassert(vDeliver(a, &chunkShutdown{cumulativeTSNAck: a.cumulativeTSNAckPoint}) == nil, "SHUTDOWN ok")
	case 1:
		_ = a.Shutdown(vNewClosedCtx())
	case 2:
		_ = a.close()
		a.lock.Lock()
		a.unblockPendingWrites() // what the read loop does on its way out
		a.lock.Unlock()
	}
	vassert(a.getState() != established, "the association has left ESTABLISHED")
	released := false
	for i := 0; i < 2; i++ { // at most one token, then the closed channel
		select {
		case _, ok := <-parkedOn:
			if !ok {
				released = true
			}
		default:
		}
	}
	vassert(released, "every writer parked behind the gate is woken to be rejected (the channel they wait on is closed)")
	_, w2 := s.WriteSCTP(nondetBytes(1), PayloadTypeWebRTCBinary)
	vassert(w2 != nil, "and a write now fails at once")
	vcover("end")
}

// C18.L7: a failing blocking write can only give back the number it took if nobody else took
// one in between: the counters are only touched under the stream's write lock (= C20.L14).
func vh_C18_L7_sequence_numbers_belong_to_the_write_lock() {
	vh_C20_L14_sequence_numbers_belong_to_the_write_lock()
}
