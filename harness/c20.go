//go:build verif

package sctp

import "time"

// C20 — the public API is safe for concurrent use. Decided here (see DESIGN): the locking
// discipline on every sequential path of every entry point: no lock is taken while the
// same path already holds it (a VC in the engine's mutex model on every harness of every
// property), and every lock taken is released when the entry point returns. Data races
// and deadlocks under real schedules are outside the claim.

func vh_C20_L1_api_lock_balance() { vAPIWalk(false) }

// C20.L2: lockset discipline. The fields that the association lock and the stream lock
// protect are declared guarded; on every path of the same walk through the API and the
// internal entry points (timer callbacks, inbound chunks, the writer), no code of the
// package reads one of them without its lock or writes one without holding it exclusively.
func vh_C20_L2_lockset_discipline() { vAPIWalk(true) }

func vDeclareGuards(a *Association, s *Stream) {
	vGuardedBy(&s.sequenceNumber, &s.lock, "Stream.sequenceNumber")
	vGuardedBy(&s.nextOrderedMID, &s.lock, "Stream.nextOrderedMID")
	vGuardedBy(&s.nextUnorderedMID, &s.lock, "Stream.nextUnorderedMID")
	vGuardedBy(&s.readErr, &s.lock, "Stream.readErr")
	vGuardedBy(&s.unordered, &s.lock, "Stream.unordered")
	vGuardedBy(&s.reliabilityType, &s.lock, "Stream.reliabilityType")
	vGuardedBy(&s.reliabilityValue, &s.lock, "Stream.reliabilityValue")
	vGuardedBy(&s.bufferedAmount, &s.lock, "Stream.bufferedAmount")
	vGuardedBy(&s.bufferedAmountLow, &s.lock, "Stream.bufferedAmountLow")
	vGuardedBy(&s.onBufferedAmountLow, &s.lock, "Stream.onBufferedAmountLow")
	vGuardedBy(&s.state, &s.lock, "Stream.state")
	vGuardedBy(&s.readTimeoutCancel, &s.lock, "Stream.readTimeoutCancel")
	vGuardedBy(&a.streams, &a.lock, "Association.streams")
	vGuardedBy(&a.myNextTSN, &a.lock, "Association.myNextTSN")
	vGuardedBy(&a.myNextRSN, &a.lock, "Association.myNextRSN")
	vGuardedBy(&a.reconfigs, &a.lock, "Association.reconfigs")
	vGuardedBy(&a.reconfigRequests, &a.lock, "Association.reconfigRequests")
	vGuardedBy(&a.cumulativeTSNAckPoint, &a.lock, "Association.cumulativeTSNAckPoint")
	vGuardedBy(&a.advancedPeerTSNAckPoint, &a.lock, "Association.advancedPeerTSNAckPoint")
	vGuardedBy(&a.willSendShutdown, &a.lock, "Association.willSendShutdown")
	vGuardedBy(&a.willSendAbort, &a.lock, "Association.willSendAbort")
	vGuardedBy(&a.willSendForwardTSN, &a.lock, "Association.willSendForwardTSN")
	vGuardedBy(&a.willRetransmitFast, &a.lock, "Association.willRetransmitFast")
	vGuardedBy(&a.writePending, &a.lock, "Association.writePending")
	vGuardedBy(&a.ackState, &a.lock, "Association.ackState")
	vGuardedBy(&a.inFastRecovery, &a.lock, "Association.inFastRecovery")
	vGuardedBy(&a.partialBytesAcked, &a.lock, "Association.partialBytesAcked")
	vGuardedBy(&a.ssthresh, &a.lock, "Association.ssthresh")
}

func vAPIWalk(guards bool) {
	a, _ := vNewAssocOpts(vAssocOpts{blockWrite: vPick(2) == 1})
	s, err := a.OpenStream(1, PayloadTypeWebRTCBinary)
	vassert(err == nil, "open stream")
	if vPick(2) == 1 {
		// a message is already in flight when the walk begins
		_, werr := s.WriteSCTP(nondetBytes(1), PayloadTypeWebRTCBinary)
		vassert(werr == nil, "write accepted")
		a.cwnd, a.rwnd = 1<<20, 1<<20
		_ = vWriterPass(a)
		vassert(a.inflightQueue.size() == 1, "in flight")
	}
	if guards {
		vDeclareGuards(a, s)
	}
	cum := a.peerLastTSN()
	vassert(vDeliver(a, vDataChunk(a, cum+1, 1, false, 2)) == nil, "inbound data for the stream")
	vassert(vLocksFree(a, s), "locks free after inbound DATA")
	steps := 2
	if vtier() > 0 {
		steps = 3
	}
	for i := 0; i < steps; i++ {
		switch vPick(18) {
		case 0:
			_, _ = s.WriteSCTP(nondetBytes(1+vPick(2)), PayloadTypeWebRTCBinary)
		case 1:
			if s.reassemblyQueue.isReadable() || s.readErr != nil {
				_, _, _ = s.ReadSCTP(make([]byte, 1+vPick(4)))
			}
		case 2:
			s.SetReliabilityParams(nondetBool(), byte(vPick(3)), nondetU32())
		case 3:
			_ = s.BufferedAmount()
			_ = s.BufferedAmountLowThreshold()
			_ = s.State()
			_ = s.StreamIdentifier()
		case 4:
			s.SetBufferedAmountLowThreshold(uint64(nondetU32()))
			s.OnBufferedAmountLow(func() {})
			s.SetDefaultPayloadType(PayloadTypeWebRTCString)
		case 5:
			_ = s.Close()
		case 6:
			_ = s.SetReadDeadline(time.Time{})
			_ = s.SetWriteDeadline(time.Time{})
		case 7:
			_, _ = a.OpenStream(uint16(2+vPick(2)), PayloadTypeWebRTCBinary)
		case 8:
			_ = a.BufferedAmount()
			_ = a.MaxMessageSize()
			a.SetMaxMessageSize(nondetU32())
			_ = a.SRTT()
			_ = a.MTU()
			_ = a.CWND()
			_ = a.RWND()
			_ = a.BytesSent()
			_ = a.BytesReceived()
		case 9:
			_ = a.Shutdown(vNewClosedCtx())
		case 10:
			_ = vWriterPass(a) // gatherOutbound
		case 11:
			a.onRetransmissionTimeout([]int{timerT1Init, timerT1Cookie, timerT2Shutdown, timerT3RTX, timerReconfig}[vPick(5)], uint(1+vPick(2)))
		case 12:
			a.onRetransmissionFailure([]int{timerT2Shutdown, timerT3RTX, timerReconfig}[vPick(3)])
		case 13:
			a.onAckTimeout()
		case 14:
			a.ActiveHeartbeat()
		case 16:
			a.onPTOTimer() // the tail-loss-probe deadline passes (timerLoop calls this without any lock)
		case 17:
			a.onRackTimeout()
		case 15:
			sack := &chunkSelectiveAck{cumulativeTSNAck: nondetU32(), advertisedReceiverWindowCredit: nondetU32()}
			_ = vDeliver(a, sack)
		}
		vassert(vLocksFree(a, s), "every lock taken by the entry point is released when it returns")
	}
	vcover("end")
}

// C20.L3: timer callbacks reach the observer without the timer's own mutex held, so the
// lock order association-lock -> timer-mutex used by every handler cannot be inverted
// (same obligation as vh_C19_L3_retry_law, which checks it inside both callbacks).
func vh_C20_L3_timer_callbacks_unlocked() { vh_C19_L3_retry_law() }

// C20.L4: events that end a stream wake every goroutine blocked on it (teardown = C09.L7, peer reset = C14.L2).
func vh_C20_L4_teardown_wakes_every_reader() { vh_C09_L7_every_blocked_reader_is_woken() }
func vh_C20_L4_reset_wakes_every_reader()    { vh_C14_L2_deferred_reset() }
