//go:build verif

package sctp

import "time"

// C20 — the public API is safe for concurrent use. Decided here (see DESIGN): the locking
// discipline on every sequential path of every entry point: no lock is taken while the
// same path already holds it (a VC in the engine's mutex model on every harness of every
// property), and every lock taken is released when the entry point returns. Data races
// and deadlocks under real schedules are outside the claim.

func vh_C20_L1_api_lock_balance() { vAPIWalk(false) }

// C20.L2: lockset discipline. The fields that the association lock and the stream lock
// protect are declared guarded; on every path of the same walk through the API and the
// internal entry points (timer callbacks, inbound chunks, the writer), no code of the
// package reads one of them without its lock or writes one without holding it exclusively.
func vh_C20_L2_lockset_discipline() { vAPIWalk(true) }

func vDeclareGuards(a *Association, s *Stream) {
	vGuardedBy(&s.sequenceNumber, &s.lock, "Stream.sequenceNumber")
	vGuardedBy(&s.nextOrderedMID, &s.lock, "Stream.nextOrderedMID")
	vGuardedBy(&s.nextUnorderedMID, &s.lock, "Stream.nextUnorderedMID")
	vGuardedBy(&s.readErr, &s.lock, "Stream.readErr")
	vGuardedBy(&s.unordered, &s.lock, "Stream.unordered")
	vGuardedBy(&s.reliabilityType, &s.lock, "Stream.reliabilityType")
	vGuardedBy(&s.reliabilityValue, &s.lock, "Stream.reliabilityValue")
	vGuardedBy(&s.bufferedAmount, &s.lock, "Stream.bufferedAmount")
	vGuardedBy(&s.bufferedAmountLow, &s.lock, "Stream.bufferedAmountLow")
	vGuardedBy(&s.onBufferedAmountLow, &s.lock, "Stream.onBufferedAmountLow")
	vGuardedBy(&s.state, &s.lock, "Stream.state")
	vGuardedBy(&s.readTimeoutCancel, &s.lock, "Stream.readTimeoutCancel")
	vGuardedBy(&a.streams, &a.lock, "Association.streams")
	vGuardedBy(&a.myNextTSN, &a.lock, "Association.myNextTSN")
	vGuardedBy(&a.myNextRSN, &a.lock, "Association.myNextRSN")
	vGuardedBy(&a.reconfigs, &a.lock, "Association.reconfigs")
	vGuardedBy(&a.reconfigRequests, &a.lock, "Association.reconfigRequests")
	vGuardedBy(&a.cumulativeTSNAckPoint, &a.lock, "Association.cumulativeTSNAckPoint")
	vGuardedBy(&a.advancedPeerTSNAckPoint, &a.lock, "Association.advancedPeerTSNAckPoint")
	vGuardedBy(&a.willSendShutdown, &a.lock, "Association.willSendShutdown")
	vGuardedBy(&a.willSendAbort, &a.lock, "Association.willSendAbort")
	vGuardedBy(&a.willSendForwardTSN, &a.lock, "Association.willSendForwardTSN")
	vGuardedBy(&a.willRetransmitFast, &a.lock, "Association.willRetransmitFast")
	vGuardedBy(&a.writePending, &a.lock, "Association.writePending")
	vGuardedBy(&a.ackState, &a.lock, "Association.ackState")
	vGuardedBy(&a.inFastRecovery, &a.lock, "Association.inFastRecovery")
	vGuardedBy(&a.partialBytesAcked, &a.lock, "Association.partialBytesAcked")
	vGuardedBy(&a.ssthresh, &a.lock, "Association.ssthresh")
	vGuardedBy(&a.rackHead, &a.lock, "Association.rackHead")
	vGuardedBy(&a.rackTail, &a.lock, "Association.rackTail")
	vGuardedBy(&a.tlrActive, &a.lock, "Association.tlrActive")
	vGuardedBy(&a.peerVerificationTag, &a.lock, "Association.peerVerificationTag")
	vGuardedBy(&a.minTSN2MeasureRTT, &a.lock, "Association.minTSN2MeasureRTT")
	vGuardedBy(&a.willRetransmitReconfig, &a.lock, "Association.willRetransmitReconfig")
	vGuardedBy(&a.willSendShutdownAck, &a.lock, "Association.willSendShutdownAck")
	vGuardedBy(&a.willSendShutdownComplete, &a.lock, "Association.willSendShutdownComplete")
	vGuardedBy(&a.shutdownCompletePending, &a.lock, "Association.shutdownCompletePending")
	vGuardedBy(&a.willSendAbortCause, &a.lock, "Association.willSendAbortCause")
	vGuardedBy(&a.myCookie, &a.lock, "Association.myCookie")
	vGuardedBy(&a.useForwardTSN, &a.lock, "Association.useForwardTSN")
	vGuardedBy(&a.useIForwardTSN, &a.lock, "Association.useIForwardTSN")
	vGuardedBy(&a.peerInterleaving, &a.lock, "Association.peerInterleaving")
	vGuardedBy(&a.peerForwardTSN, &a.lock, "Association.peerForwardTSN")
	vGuardedBy(&a.peerIForwardTSN, &a.lock, "Association.peerIForwardTSN")
	vGuardedBy(&a.sendZeroChecksum, &a.lock, "Association.sendZeroChecksum")
	vGuardedBy(&a.recvZeroChecksum, &a.lock, "Association.recvZeroChecksum")
	vGuardedBy(&a.fastRecoverExitPoint, &a.lock, "Association.fastRecoverExitPoint")
	vGuardedBy(&a.rackReoWnd, &a.lock, "Association.rackReoWnd")
	vGuardedBy(&a.rackMinRTT, &a.lock, "Association.rackMinRTT")
	vGuardedBy(&a.rackDeliveredTime, &a.lock, "Association.rackDeliveredTime")
	vGuardedBy(&a.rackHighestDeliveredOrigTSN, &a.lock, "Association.rackHighestDeliveredOrigTSN")
	vGuardedBy(&a.rackReorderingSeen, &a.lock, "Association.rackReorderingSeen")
	vGuardedBy(&a.storedInit, &a.lock, "Association.storedInit")
	vGuardedBy(&a.storedCookieEcho, &a.lock, "Association.storedCookieEcho")
	vGuardedBy(&a.delayedAckTriggered, &a.lock, "Association.delayedAckTriggered")
	vGuardedBy(&a.immediateAckTriggered, &a.lock, "Association.immediateAckTriggered")
	vGuardedBy(&a.tlrFirstRTT, &a.lock, "Association.tlrFirstRTT")
	vGuardedBy(&a.tlrHadAdditionalLoss, &a.lock, "Association.tlrHadAdditionalLoss")
	vGuardedBy(&a.tlrEndTSN, &a.lock, "Association.tlrEndTSN")
	vGuardedBy(&a.tlrGoodOps, &a.lock, "Association.tlrGoodOps")
	vGuardedBy(&a.tlrStartTime, &a.lock, "Association.tlrStartTime")
	vGuardedBy(&a.silentError, &a.lock, "Association.silentError")
}

func vAPIWalk(guards bool) {
	a, _ := vNewAssocOpts(vAssocOpts{blockWrite: vPick(2) == 1})
	s, err := a.OpenStream(1, PayloadTypeWebRTCBinary)
	vassert(err == nil, "open stream")
	if vPick(2) == 1 {
		// a message is already in flight when the walk begins
		_, werr := s.WriteSCTP(nondetBytes(1), PayloadTypeWebRTCBinary)
		vassert(werr == nil, "write accepted")
		a.cwnd, a.rwnd = 1<<20, 1<<20
		_ = vWriterPass(a)
		vassert(a.inflightQueue.size() == 1, "in flight")
	}
	if guards {
		vDeclareGuards(a, s)
	}
	cum := a.peerLastTSN()
	vassert(vDeliver(a, vDataChunk(a, cum+1, 1, false, 2)) == nil, "inbound data for the stream")
	vassert(vLocksFree(a, s), "locks free after inbound DATA")
	steps := 2
	if vtier() > 0 {
		steps = 3
	}
	for i := 0; i < steps; i++ {
		switch vPick(18) {
		case 0:
			_, _ = s.WriteSCTP(nondetBytes(1+vPick(2)), PayloadTypeWebRTCBinary)
		case 1:
			if s.reassemblyQueue.isReadable() || s.readErr != nil {
				_, _, _ = s.ReadSCTP(make([]byte, 1+vPick(4)))
			}
		case 2:
			s.SetReliabilityParams(nondetBool(), byte(vPick(3)), nondetU32())
		case 3:
			_ = s.BufferedAmount()
			_ = s.BufferedAmountLowThreshold()
			_ = s.State()
			_ = s.StreamIdentifier()
		case 4:
			s.SetBufferedAmountLowThreshold(uint64(nondetU32()))
			s.OnBufferedAmountLow(func() {})
			s.SetDefaultPayloadType(PayloadTypeWebRTCString)
		case 5:
			_ = s.Close()
		case 6:
			_ = s.SetReadDeadline(time.Time{})
			_ = s.SetWriteDeadline(time.Time{})
		case 7:
			_, _ = a.OpenStream(uint16(2+vPick(2)), PayloadTypeWebRTCBinary)
		case 8:
			_ = a.BufferedAmount()
			_ = a.MaxMessageSize()
			a.SetMaxMessageSize(nondetU32())
			_ = a.SRTT()
			_ = a.MTU()
			_ = a.CWND()
			_ = a.RWND()
			_ = a.BytesSent()
			_ = a.BytesReceived()
		case 9:
			_ = a.Shutdown(vNewClosedCtx())
		case 10:
			_ = vWriterPass(a) // gatherOutbound
		case 11:
			a.onRetransmissionTimeout([]int{timerT1Init, timerT1Cookie, timerT2Shutdown, timerT3RTX, timerReconfig}[vPick(5)], uint(1+vPick(2)))
		case 12:
			a.onRetransmissionFailure([]int{timerT2Shutdown, timerT3RTX, timerReconfig}[vPick(3)])
		case 13:
			a.onAckTimeout()
		case 14:
			a.ActiveHeartbeat()
		case 16:
			a.onPTOTimer() // the tail-loss-probe deadline passes (timerLoop calls this without any lock)
		case 17:
			a.onRackTimeout()
		case 15:
			sack := &chunkSelectiveAck{cumulativeTSNAck: nondetU32(), advertisedReceiverWindowCredit: nondetU32()}
			_ = vDeliver(a, sack)
		}
		vassert(vLocksFree(a, s), "every lock taken by the entry point is released when it returns")
	}
	vcover("end")
}

// C20.L3: timer callbacks reach the observer without the timer's own mutex held, so the
// lock order association-lock -> timer-mutex used by every handler cannot be inverted
// (same obligation as vh_C19_L3_retry_law, which checks it inside both callbacks).
func vh_C20_L3_timer_callbacks_unlocked() { vh_C19_L3_retry_law() }

// C20.L4: events that end a stream wake every goroutine blocked on it (teardown = C09.L7, peer reset = C14.L2).
func vh_C20_L4_teardown_wakes_every_reader() { vh_C09_L7_every_blocked_reader_is_woken() }
func vh_C20_L4_reset_wakes_every_reader()    { vh_C14_L2_deferred_reset() }

// C20.L5: two API calls racing, with one context switch. The first call runs on the harness
// goroutine; at any point where it has released a lock and holds none, the second call may
// run to completion (vPreemptWith). What each pair must guarantee whichever way they
// interleave:
//
//	OpenStream(id) x OpenStream(id): both return the same stream, which is the registered one;
//	OpenStream(id) x inbound DATA for id: one stream, it holds the data;
//	WriteSCTP x WriteSCTP on one stream (blocking-write mode or not): both accepted, with two
//	  consecutive sequence numbers, each used once;
//	WriteSCTP x Close: the write is either rejected or queued before the reset marker.
func vh_C20_L5_racing_api_calls() {
	a, _ := vNewAssocOpts(vAssocOpts{blockWrite: vPick(2) == 1})
	switch vPick(6) {
	case 4:
		// WriteSCTP x Shutdown: a write that returns success is sent before the association
		// goes quiet (it is never stranded in the queue of an association that has stopped
		// sending new data)
		s, _ := a.OpenStream(1, PayloadTypeWebRTCBinary)
		a.cwnd, a.rwnd = 1<<20, 1<<20
		vPreemptWith(func() { _ = a.Shutdown(vNewClosedCtx()) })
		_, merr := s.WriteSCTP([]byte{1}, PayloadTypeWebRTCBinary)
		if vPreemptBody != nil {
			vPreemptBody = nil
			_ = a.Shutdown(vNewClosedCtx())
		}
		_ = vWriterPass(a)
		_ = vWriterPass(a)
		if merr == nil {
			vassert(a.pendingQueue.size() == 0 && a.inflightQueue.size() == 1, "a write accepted while Shutdown was being called is put on the wire")
		} else {
			vassert(a.pendingQueue.size() == 0 && a.inflightQueue.size() == 0, "a rejected write queues nothing")
		}
		vcover("write-shutdown")
	case 5:
		// Shutdown x the peer's SHUTDOWN (nothing outstanding): whichever gets in first, the
		// association ends up having answered the peer (SHUTDOWN-ACK-SENT), never back in an
		// earlier shutdown state
		var serr error
		vPreemptWith(func() { _ = vDeliver(a, &chunkShutdown{cumulativeTSNAck: a.cumulativeTSNAckPoint}) })
		serr = a.Shutdown(vNewClosedCtx())
		if vPreemptBody != nil {
			vPreemptBody = nil
			_ = vDeliver(a, &chunkShutdown{cumulativeTSNAck: a.cumulativeTSNAckPoint})
		}
		_ = serr
		_ = vWriterPass(a)
		vassert(a.getState() == shutdownAckSent, "local Shutdown and the peer's SHUTDOWN racing end in SHUTDOWN-ACK-SENT whichever is processed first")
		vcover("shutdown-shutdown")
	case 0:
		var other *Stream
		vPreemptWith(func() { other, _ = a.OpenStream(7, PayloadTypeWebRTCBinary) })
		mine, err := a.OpenStream(7, PayloadTypeWebRTCBinary)
		vassert(err == nil && mine != nil, "open succeeds")
		if vPreemptBody != nil { // the switch was not taken: the second call runs afterwards
			vPreemptBody = nil
			other, _ = a.OpenStream(7, PayloadTypeWebRTCBinary)
		}
		vassert(other == mine, "two callers opening the same identifier get the same stream")
		vassert(a.streams[7] == mine, "and it is the registered one")
		vcover("open-open")
	case 1:
		cum := a.peerLastTSN()
		vPreemptWith(func() { _ = vDeliver(a, vDataChunk(a, cum+1, 7, false, 2)) })
		mine, err := a.OpenStream(7, PayloadTypeWebRTCBinary)
		vassert(err == nil && mine != nil, "open succeeds")
		if vPreemptBody != nil {
			vPreemptBody = nil
			_ = vDeliver(a, vDataChunk(a, cum+1, 7, false, 2))
		}
		vassert(a.streams[7] == mine, "the stream created by inbound data and the one returned to the caller are the same")
		vassert(mine.getNumBytesInReassemblyQueue() == 2, "and it holds the data")
		vcover("open-data")
	case 2:
		s, _ := a.OpenStream(1, PayloadTypeWebRTCBinary)
		a.cwnd, a.rwnd = 1<<20, 1<<20
		var oerr error
		vPreemptWith(func() { _, oerr = s.WriteSCTP([]byte{2}, PayloadTypeWebRTCBinary) })
		_, merr := s.WriteSCTP([]byte{1}, PayloadTypeWebRTCBinary)
		if a.blockWrite && merr == nil && a.writePending {
			_ = vWriterPass(a) // the gate opens for the second writer
		}
		if vPreemptBody != nil {
			vPreemptBody = nil
			_, oerr = s.WriteSCTP([]byte{2}, PayloadTypeWebRTCBinary)
		}
		vassert(merr == nil && oerr == nil, "both writes are accepted")
		_ = vWriterPass(a)
		// the two messages carry two consecutive sequence numbers, each once (which of the
		// two racing writers gets the lower one, and which reaches the wire first, is free)
		if a.inflightQueue.size() == 2 {
			x, y := a.inflightQueue.chunks.At(0).streamSequenceNumber, a.inflightQueue.chunks.At(1).streamSequenceNumber
			vassert((x == 0 && y == 1) || (x == 1 && y == 0), "racing writers never share or skip a sequence number")
		}
		vassert(a.inflightQueue.size() == 2, "both messages are on their way")
		vcover("write-write")
	case 3:
		s, _ := a.OpenStream(1, PayloadTypeWebRTCBinary)
		a.cwnd, a.rwnd = 1<<20, 1<<20
		vPreemptWith(func() { _ = s.Close() })
		_, merr := s.WriteSCTP([]byte{1}, PayloadTypeWebRTCBinary)
		if vPreemptBody != nil {
			vPreemptBody = nil
			_ = s.Close()
		}
		pkts := vWriterPass(a)
		sawReset, dataAfterReset := false, false
		for _, raw := range pkts {
			if p := vDecode(raw); p != nil {
				for _, c := range p.chunks {
					switch c.(type) {
					case *chunkReconfig:
						sawReset = true
					case *chunkPayloadData:
						if sawReset {
							dataAfterReset = true
						}
					}
				}
			}
		}
		vassert(sawReset, "the reset request goes out")
		if merr == nil {
			vassert(!dataAfterReset, "a write accepted while the stream was being closed is sent before the reset request")
		}
		vcover("write-close")
	}
}

// C20.L6: the timer goroutine itself. The association is built with its timer loop live
// (vGoLive: it runs whenever the harness goroutine waits); data is put in flight, which arms
// the tail-loss-probe deadline; then time passes. The real timerLoop must fire the callback
// with neither the timer mutex nor any other lock held (the callback takes the association
// lock and re-arms the deadlines itself), and leave every lock free.
func vh_C20_L6_timer_loop_fires_callbacks_unlocked() {
	vGoLive = true
	cfg := &Config{NetConn: &vConn{}, LoggerFactory: vLoggerFactory{}, Name: "v"}
	a := createAssociationFromConfigWithTsn(cfg, []uint32{0xfffffffe, 5}[vPick(2)])
	a.payloadQueue = newReceivePayloadQueue(192)
	a.peerVerificationTag = 7
	a.sourcePort, a.destinationPort = 5000, 5000
	a.setState(established)
	a.srtt.Store(float64(1)) // a measured round trip: the probe deadline is 2 ms + the worst-case delayed ack
	s, err := a.OpenStream(1, PayloadTypeWebRTCBinary)
	vassert(err == nil, "open stream")
	_, werr := s.WriteSCTP(nondetBytes(1), PayloadTypeWebRTCBinary)
	vassert(werr == nil, "write accepted")
	a.cwnd, a.rwnd = 1<<20, 1<<20
	_ = vWriterPass(a)
	vassert(a.inflightQueue.size() == 1 && !a.ptoDeadline.IsZero(), "data in flight, tail-loss probe armed")
	rack := vPick(2) == 1
	if rack {
		// the RACK reordering deadline instead: its callback walks and edits the list of
		// outstanding original transmissions, which belongs to the association lock
		a.stopPTOTimer()
		a.rackDeliveredTime = time.Now() // something was delivered before
		a.startRackTimer(time.Millisecond)
		vGuardedBy(&a.rackHead, &a.lock, "Association.rackHead")
		vGuardedBy(&a.rackTail, &a.lock, "Association.rackTail")
		vGuardedBy(&a.tlrActive, &a.lock, "Association.tlrActive")
	}
	<-time.After(2 * time.Second) // nothing arrives: the deadline passes while this goroutine waits
	a.timerMu.Lock()
	rackLeft := !a.rackDeadline.IsZero()
	a.timerMu.Unlock()
	a.lock.RLock()
	fired := a.tlrActive
	a.lock.RUnlock()
	if rack {
		vassert(!rackLeft, "the timer loop fired the reordering deadline")
	} else {
		vassert(fired, "the timer loop fired the tail-loss probe")
	}
	vassert(vLocksFree(a, s), "and left every lock free")
	a.closeWriteLoopOnce.Do(func() { close(a.closeWriteLoopCh) })
	vcover("end")
}

// C20.L7: handlers parked under the association lock are released by Close (= C09.L6), closed
// timers stay closed under late stop/start (= C09 teardown), and the deadline goroutine
// never overwrites a terminal error (= C18.L4).
func vh_C20_L7_parked_handler_released_by_close() {
	vh_C09_L6_parked_handshake_handler_released_by_close()
}
func vh_C20_L7_deadline_goroutine_keeps_terminal_error() { vh_C18_L4_read_deadline() }

// C20.L8: several writers parked at the blocking-write gate are all released by a teardown,
// also when one of them has just been handed the token (= C09.L11).
func vh_C20_L8_teardown_releases_every_parked_writer() {
	vh_C09_L11_teardown_closes_the_writers_channel()
}

// C20.L9: a blocking write that fails after having waited, while other calls go on around it.
// Blocking-write mode; a first message is waiting (the gate is closed); a second write, with
// a deadline, parks behind the gate. While it is parked another goroutine may flip the
// stream's ordered/unordered setting; then the writer drains the queue (one hand-over token
// is posted); the deadline expires either while the write is still parked, or at any
// lock-free point after it has been handed the token (one context switch). Whichever way
// it ends:
//   - a failed write gives back exactly the sequence number / message identifier it had
//     taken (decided when the message was packetized, not by the setting at the time of the
//     failure) and queues nothing;
//   - the hand-over is not lost: afterwards the gate is either claimed (writePending) or the
//     token is there for the next writer that is blocked behind it.
func vh_C20_L9_parked_write_fails_while_others_go_on() {
	vGoLive = true
	il := vPick(2) == 1
	a, _ := vNewAssocOpts(vAssocOpts{blockWrite: true, interleaving: il})
	s, err := a.OpenStream(1, PayloadTypeWebRTCBinary)
	vassert(err == nil, "open stream")
	s.SetReliabilityParams(vPick(2) == 1, ReliabilityTypeReliable, 0)
	_, w1 := s.WriteSCTP([]byte{1}, PayloadTypeWebRTCBinary)
	vassert(w1 == nil && a.writePending, "first message waiting, the gate is closed")
	a.cwnd, a.rwnd = 1<<20, 1<<20
	ssn, omid, umid := s.sequenceNumber, s.nextOrderedMID, s.nextUnorderedMID
	vassert(s.SetWriteDeadline(time.Now().Add(time.Hour)) == nil, "write deadline armed")
	flip := vPick(2) == 1
	expireParked := vPick(2) == 1
	vGo(func() {
		vSleep(50 * time.Millisecond) // the second write is parked by now
		if flip {
			s.lock.RLock()
			u := s.unordered
			s.lock.RUnlock()
			s.SetReliabilityParams(!u, ReliabilityTypeReliable, 0)
		}
		if expireParked {
			_ = s.SetWriteDeadline(time.Now().Add(-time.Second))
		} else {
			_ = vWriterPass(a) // the queue drains: the parked writer is handed the token
		}
	})
	if !expireParked {
		// ... and its deadline may pass at any point after that where the writer holds nothing
		// but its stream's write lock (which setting a deadline does not need)
		vPreemptIgnoreRank = 0
		vPreemptWith(func() {
			if !a.writePending && a.pendingQueue.size() == 0 {
				_ = s.SetWriteDeadline(time.Now().Add(-time.Second))
			}
		})
	}
	n, w2 := s.WriteSCTP([]byte{2, 3}, PayloadTypeWebRTCBinary)
	vPreemptBody = nil
	if w2 != nil {
		vassert(n == 0, "a failed write transfers nothing")
		vassert(s.sequenceNumber == ssn && s.nextOrderedMID == omid && s.nextUnorderedMID == umid, "a failed write gives back exactly the sequence number or message identifier it had taken, whatever the stream's setting is by then")
		if expireParked {
			vassert(a.pendingQueue.size() == 1, "and queues nothing")
		} else {
			vassert(a.pendingQueue.size() == 0, "and queues nothing")
			vassert(a.writePending || len(a.writeNotify) == 1, "the hand-over token is not lost: the next writer blocked behind the gate can proceed")
		}
	} else {
		vassert(n == 2 && a.writePending && a.pendingQueue.size() == 1, "an accepted write is queued and claims the gate")
	}
	a.closeWriteLoopOnce.Do(func() { close(a.closeWriteLoopCh) })
	vcover("end")
}

// C20.L10: a wake-up is never slept through. The real write loop runs live; while it is
// inside the transport's Write for a first message, another goroutine calls the API (a
// second write, Shutdown, or a stream close): the work queued by that call goes on the wire
// without waiting for any timer.
func vh_C20_L10_call_during_a_transport_write_is_served() {
	vGoLive = true
	conn := &vConn{}
	cfg := &Config{NetConn: conn, LoggerFactory: vLoggerFactory{}, Name: "v"}
	a := createAssociationFromConfigWithTsn(cfg, []uint32{0xfffffffe, 5}[vPick(2)])
	a.payloadQueue = newReceivePayloadQueue(192)
	a.peerVerificationTag = 7
	a.sourcePort, a.destinationPort = 5000, 5000
	a.setState(established)
	a.cwnd, a.rwnd = 1<<20, 1<<20
	s, err := a.OpenStream(1, PayloadTypeWebRTCBinary)
	vassert(err == nil, "open stream")
	what := vPick(3)
	conn.onWrite = func() {
		switch what {
		case 0:
			_, _ = s.WriteSCTP([]byte{2}, PayloadTypeWebRTCBinary)
		case 1:
			_ = a.Shutdown(vNewClosedCtx())
		case 2:
			_ = s.Close()
		}
	}
	vGo(a.writeLoop)
	_, werr := s.WriteSCTP([]byte{1}, PayloadTypeWebRTCBinary)
	vassert(werr == nil, "write accepted")
	<-time.After(100 * time.Millisecond) // far less than any retransmission or probe timer
	a.lock.RLock()
	inflight, pending, state, nreq := a.inflightQueue.size(), a.pendingQueue.size(), a.getState(), len(a.reconfigs)
	a.lock.RUnlock()
	switch what {
	case 0:
		vassert(inflight == 2 && pending == 0, "a write made while the writer was inside the transport is sent at once")
	case 1:
		vassert(state == shutdownPending || state == shutdownSent, "shutdown has begun")
	case 2:
		vassert(nreq == 1 && pending == 0, "the reset request for a stream closed while the writer was inside the transport is sent at once")
	}
	a.closeWriteLoopOnce.Do(func() { close(a.closeWriteLoopCh) })
	vcover("end")
}

// C20.L11: the concurrent scenarios decided under other properties: Close racing a handler
// parked under the association lock (= C09.L6b), a reader parked in a real Read when the
// association ends (= C09.L12), an acknowledgement processed while a blocking write is parked
// (= C15.L7), the low-threshold callback never invoked under a lock (= C15.L9), the handshake
// result offered before the connect call waits (= C04.L7).
func vh_C20_L11_close_racing_a_parked_handler() {
	vh_C09_L6_close_gets_through_to_a_handler_parked_under_the_lock()
}
func vh_C20_L11_parked_reader_at_teardown() { vh_C09_L12_parked_reader_leaves_no_deadline_goroutine() }
func vh_C20_L11_ack_while_a_blocking_write_is_parked() {
	vh_C15_L7_failed_blocking_write_keeps_concurrent_release()
}
func vh_C20_L11_callback_never_under_a_lock() { vh_C15_L9_callback_is_never_invoked_under_a_lock() }
func vh_C20_L11_handshake_result_before_the_caller_waits() {
	vh_C04_L7_handshake_result_waits_for_the_connect_call()
}

// C20.L12: callers parked in the API are not forgotten: the gate of blocking-write mode opens
// also when the last waiting chunk leaves as the window probe (= C18.L2); a reader whose last
// read timed out still learns that the association ended (= C08.L6); every writer parked
// behind the gate is released when the association leaves ESTABLISHED (= C18.L6).
func vh_C20_L12_gate_opens_when_the_probe_leaves() { vh_C18_L2_block_write_gate() }
func vh_C20_L12_teardown_error_reaches_a_timed_out_reader() {
	vh_C08_L6_closure_error_replaces_deadline_error()
}
func vh_C20_L12_every_parked_writer_is_released() {
	vh_C18_L6_every_parked_writer_is_released_at_shutdown()
}

// C20.L13: every message that becomes readable wakes a reader. Two or three goroutines are
// parked in Read on one stream (ghost waiters of the stream's condition variable); two
// messages for the stream arrive in one packet (nobody runs between the two chunks): two of
// the parked readers are woken, one per message - the second message is not left to a reader
// that is still asleep.
func vh_C20_L13_each_readable_message_wakes_a_reader() {
	il := vPick(2) == 1
	a, _ := vNewAssocOpts(vAssocOpts{interleaving: il})
	s, err := a.OpenStream(4, PayloadTypeWebRTCBinary)
	vassert(err == nil, "open stream")
	cum := a.peerLastTSN()
	readers := 2 + vPick(2)
	vCondPark(s.readNotifier, readers)
	unordered := vPick(2) == 1
	c1 := vDataChunk(a, cum+1, 4, unordered, 1)
	c2 := vDataChunk(a, cum+2, 4, unordered, 1)
	c2.streamSequenceNumber, c2.messageIdentifier = 1, 1
	pkt := &packet{verificationTag: a.myVerificationTag, sourcePort: a.destinationPort, destinationPort: a.sourcePort}
	a.handleChunksStart()
	vassert(a.handleChunk(pkt, c1) == nil && a.handleChunk(pkt, c2) == nil, "DATA ok")
	a.handleChunksEnd()
	vassert(s.getNumBytesInReassemblyQueue() == 2 && s.reassemblyQueue.isReadable(), "both messages are waiting to be read")
	vassert(vCondParked(s.readNotifier) == readers-2, "two messages wake two of the parked readers")
	vcover("end")
}

// C20.L14: in blocking-write mode a stream's sequence numbers belong to its write lock. Two
// writers on one stream are serialised by Stream.writeLock from the moment a number is taken
// until the message is queued or the number is given back; were a number taken outside it, a
// failing first writer would roll the counter back under a second writer that already holds
// the next number (one number lost, one used twice). Declared as a lockset obligation: on
// every path of an accepted write and of a write that fails at its deadline, the counters
// are only touched with the write lock held (confirmed natively by the race detector).
func vh_C20_L14_sequence_numbers_belong_to_the_write_lock() {
	a, _ := vNewAssocOpts(vAssocOpts{blockWrite: true, interleaving: vPick(2) == 1})
	s, err := a.OpenStream(1, PayloadTypeWebRTCBinary)
	vassert(err == nil, "open stream")
	s.SetReliabilityParams(vPick(2) == 1, ReliabilityTypeReliable, 0)
	vGuardedBy(&s.sequenceNumber, &s.writeLock, "Stream.sequenceNumber (write serialisation)")
	vGuardedBy(&s.nextOrderedMID, &s.writeLock, "Stream.nextOrderedMID (write serialisation)")
	vGuardedBy(&s.nextUnorderedMID, &s.writeLock, "Stream.nextUnorderedMID (write serialisation)")
	_, w1 := s.WriteSCTP([]byte{1}, PayloadTypeWebRTCBinary)
	vassert(w1 == nil && a.writePending, "first write accepted, the gate is closed")
	s.writeDeadline = deadlineExceeded()
	_, w2 := s.WriteSCTP([]byte{2}, PayloadTypeWebRTCBinary)
	vassert(w2 != nil, "the second write fails at its deadline and gives its number back")
	vcover("end")
}
