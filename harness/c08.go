//go:build verif

package sctp

import (
	"errors"
	"io"
	"time"
)

// C08 — graceful shutdown delivers everything first and completes on both sides.

func vHasShutdownChunk(p *packet) bool {
	for _, c := range p.chunks {
		switch c.(type) {
		case *chunkShutdown, *chunkShutdownAck:
			return true
		}
	}
	return false
}

// one direction of the wire: everything x emits reaches y; shutdown chunks are only
// ever emitted by an endpoint with no pending or in-flight data of its own.
func vWire(x, y *Association) int {
	n := 0
	for _, raw := range vWriterWake(x) {
		p := vDecode(raw)
		if p != nil && vHasShutdownChunk(p) {
			vassert(!x.hasPendingOrInflightData(), "SHUTDOWN / SHUTDOWN-ACK is never emitted while own data is pending or in flight")
		}
		vInbound(y, raw)
		n++
	}
	return n
}

// C08.L1: loss-free shutdown between two real associations, one-sided or crossed,
// with 0..1 (quick) / 0..2 (thorough) messages still queued at the time of the call.
func vh_C08_L1_two_party_shutdown() { vTwoPartyShutdown(false) }

// C08.L1b: the same with the first packets of both sides crossing on the wire: each side has
// already put its own SHUTDOWN out when the other side's arrives.
func vh_C08_L1_two_party_shutdown_packets_cross() { vTwoPartyShutdown(true) }

func vTwoPartyShutdown(cross bool) {
	zc := vPick(2) == 1 // zero checksums negotiated both ways: every shutdown packet carries a zero checksum
	a, b := vPair(vAssocOpts{zeroChecksum: zc})
	a.sendZeroChecksum, b.sendZeroChecksum = zc, zc
	s, err := a.OpenStream(1, PayloadTypeWebRTCBinary)
	vassert(err == nil, "open stream")
	maxMsgs := 2
	if vtier() > 0 {
		maxMsgs = 3
	}
	nmsg := vPick(maxMsgs)
	var sent []byte
	for i := 0; i < nmsg; i++ {
		d := nondetBytes(1)
		sent = append(sent, d[0])
		_, werr := s.WriteSCTP(d, PayloadTypeWebRTCBinary)
		vassert(werr == nil, "write before shutdown is accepted")
	}
	crossed := vPick(2) == 1
	var sentB []byte
	if crossed && vPick(2) == 1 { // the other side also has data queued when it shuts down
		sb, berr := b.OpenStream(2, PayloadTypeWebRTCBinary)
		vassert(berr == nil, "open stream")
		d := nondetBytes(1)
		sentB = append(sentB, d[0])
		_, werrB := sb.WriteSCTP(d, PayloadTypeWebRTCBinary)
		vassert(werrB == nil, "write accepted")
	}
	_ = a.Shutdown(vNewClosedCtx())
	vassert(a.getState() == shutdownPending || a.getState() == shutdownSent, "Shutdown leaves established")
	vassert((a.getState() == shutdownSent) == (nmsg == 0), "SHUTDOWN-SENT is entered at once only when nothing is queued")
	if crossed {
		_ = b.Shutdown(vNewClosedCtx())
	}
	_, werr := s.WriteSCTP([]byte{9}, PayloadTypeWebRTCBinary)
	vassert(werr != nil, "writes after shutdown began are rejected")
	if cross {
		// both writers run before either side's packets are delivered
		pa, pb := vWriterWake(a), vWriterWake(b)
		for _, raw := range pa {
			vInbound(b, raw)
		}
		for _, raw := range pb {
			vInbound(a, raw)
		}
	}
	for round := 0; round < 10; round++ {
		n := vWire(a, b)
		vFireAck(b)
		n += vWire(b, a)
		vFireAck(a)
		if n == 0 && a.getState() == closed && b.getState() == closed {
			break
		}
	}
	vassert(a.getState() == closed, "the initiator ends up closed")
	vassert(b.getState() == closed, "the peer ends up closed")
	// everything written before the call is readable at the peer, in order
	if nmsg > 0 {
		bs := b.streams[1]
		vassert(bs != nil, "peer has the stream")
		if bs != nil {
			buf := make([]byte, 4)
			for i := 0; i < nmsg; i++ {
				n, _, rerr := bs.ReadSCTP(buf)
				vassert(rerr == nil && n == 1 && buf[0] == sent[i], "every message accepted before Shutdown is readable at the peer, in order")
			}
		}
	}
	vassert(s.BufferedAmount() == 0, "sender drained")
	if len(sentB) > 0 {
		as := a.streams[2]
		vassert(as != nil, "first side has the peer's stream")
		if as != nil {
			buf := make([]byte, 4)
			n, _, rerr := as.ReadSCTP(buf)
			vassert(rerr == nil && n == 1 && buf[0] == sentB[0], "in a crossed shutdown the data of both sides is delivered")
		}
	}
	vobserve("nmsg", uint64(nmsg))
	vcover("end")
}

// C08.L1b: unexpected shutdown-sequence chunks change nothing; expected ones move one step.
func vh_C08_L1_state_table() {
	a, _ := vNewAssoc()
	st := uint32(vPick(8))
	a.setState(st)
	var c chunk
	kind := vPick(3)
	switch kind {
	case 0:
		c = &chunkShutdown{cumulativeTSNAck: a.cumulativeTSNAckPoint}
	case 1:
		c = &chunkShutdownAck{}
	case 2:
		c = &chunkShutdownComplete{}
	}
	vassert(vDeliver(a, c) == nil, "shutdown-sequence chunks are never fatal")
	after := a.getState()
	switch kind {
	case 0:
		switch st {
		case established, shutdownPending, shutdownReceived:
			vassert(after == shutdownAckSent && a.willSendShutdownAck, "SHUTDOWN with nothing outstanding: SHUTDOWN-ACK is requested")
		case shutdownSent:
			vassert(after == shutdownAckSent && a.willSendShutdownAck && !a.willSendShutdown, "crossed SHUTDOWN is answered with SHUTDOWN-ACK")
		case shutdownAckSent:
			vassert(after == shutdownAckSent && a.willSendShutdownAck, "a repeated SHUTDOWN re-emits SHUTDOWN-ACK")
		default:
			vassert(after == st && !a.willSendShutdownAck && !a.willSendShutdown, "SHUTDOWN outside an established association changes nothing")
		}
	case 1:
		if st == shutdownSent || st == shutdownAckSent {
			vassert(a.willSendShutdownComplete && a.shutdownCompletePending, "SHUTDOWN-ACK is answered with SHUTDOWN-COMPLETE")
			pkts := vWriterWake(a)
			vassert(len(pkts) == 1, "SHUTDOWN-COMPLETE goes out alone")
			if len(pkts) == 1 {
				p := vDecode(pkts[0])
				_, isSC := p.chunks[0].(*chunkShutdownComplete)
				vassert(len(p.chunks) == 1 && isSC, "the terminal packet is SHUTDOWN-COMPLETE")
			}
			vassert(a.getState() == closed, "sending SHUTDOWN-COMPLETE ends the association")
		} else {
			vassert(after == st && !a.willSendShutdownComplete && !a.shutdownCompletePending, "an unexpected SHUTDOWN-ACK changes nothing")
		}
	case 2:
		if st == shutdownAckSent {
			vassert(after == closed, "SHUTDOWN-COMPLETE closes the association")
		} else {
			vassert(after == st, "an unexpected SHUTDOWN-COMPLETE changes nothing")
		}
	}
	vobserve("after", uint64(after))
	vcover("end")
}

// C08.L1c: loss of a shutdown-sequence packet is recoverable: T2 expiry re-emits the
// pending chunk; SHUTDOWN carries the current cumulative TSN.
func vh_C08_L1_t2_retransmits() {
	a, _ := vNewAssoc()
	ackSent := vPick(2) == 1
	if ackSent {
		a.setState(shutdownAckSent)
	} else {
		a.setState(shutdownSent)
	}
	n := uint(1 + vPick(3))
	a.onRetransmissionTimeout(timerT2Shutdown, n)
	pkts := vWriterWake(a) // the timer callback must wake the writer
	vassert(len(pkts) == 1, "T2 expiry emits one packet")
	if len(pkts) != 1 {
		return
	}
	p := vDecode(pkts[0])
	if ackSent {
		_, ok := p.chunks[0].(*chunkShutdownAck)
		vassert(ok, "T2 in SHUTDOWN-ACK-SENT retransmits SHUTDOWN-ACK")
	} else {
		sh, ok := p.chunks[0].(*chunkShutdown)
		vassert(ok && sh.cumulativeTSNAck == a.peerLastTSN(), "T2 in SHUTDOWN-SENT retransmits SHUTDOWN with the current cumulative TSN")
	}
	vassert(a.t2Shutdown.isRunning(), "T2 keeps running (no retry limit)")
	vassert(a.getState() != closed, "retransmission does not end the association")
	// shutdown packets are retransmitted for as long as the association lives
	for i := 0; i < 9; i++ {
		vassert(vFireRtx(a, a.t2Shutdown), "T2 expires again")
		vassert(len(vWriterWake(a)) == 1, "and the shutdown chunk goes out again")
	}
	vassert(a.t2Shutdown.isRunning(), "T2 never gives up")
	vcover("end")
}

// C08.L2 / C18.L1: writes and stream opens after shutdown began are rejected without effect.
func vh_C08_L2_reject_after_shutdown() {
	a, _ := vNewAssocOpts(vAssocOpts{interleaving: vPick(2) == 1})
	s, err := a.OpenStream(1, PayloadTypeWebRTCBinary)
	vassert(err == nil, "open stream")
	s.SetReliabilityParams(vPick(2) == 1, ReliabilityTypeReliable, 0)
	states := []uint32{closed, cookieWait, cookieEchoed, shutdownPending, shutdownSent, shutdownReceived, shutdownAckSent}
	a.setState(states[vPick(len(states))])
	ssn, omid, umid := s.sequenceNumber, s.nextOrderedMID, s.nextUnorderedMID
	n, werr := s.WriteSCTP(nondetBytes(1+vPick(2)), PayloadTypeWebRTCBinary)
	vassert(werr != nil && n == 0, "write outside ESTABLISHED is rejected")
	vassert(a.pendingQueue.size() == 0 && a.inflightQueue.size() == 0, "a rejected write queues nothing")
	vassert(s.BufferedAmount() == 0, "a rejected write leaves the buffered amount alone")
	vassert(s.sequenceNumber == ssn && s.nextOrderedMID == omid && s.nextUnorderedMID == umid, "a rejected write consumes no sequence number")
	if st := a.getState(); st != cookieWait && st != cookieEchoed {
		_, oerr := a.OpenStream(7, PayloadTypeWebRTCBinary)
		vassert(oerr != nil, "OpenStream after shutdown began is rejected")
	}
	vcover("end")
}

// C08.L3: the same exchange with any single packet (in either direction) lost: the
// retransmission timers recover and both sides still end up closed with the data delivered.
func vh_C08_L3_one_loss() {
	a, b := vPair(vAssocOpts{})
	s, err := a.OpenStream(1, PayloadTypeWebRTCBinary)
	vassert(err == nil, "open stream")
	nmsg := vPick(2)
	var sent []byte
	for i := 0; i < nmsg; i++ {
		d := nondetBytes(1)
		sent = append(sent, d[0])
		_, werr := s.WriteSCTP(d, PayloadTypeWebRTCBinary)
		vassert(werr == nil, "write before shutdown is accepted")
	}
	crossed := vPick(2) == 1
	_ = a.Shutdown(vNewClosedCtx())
	if crossed {
		_ = b.Shutdown(vNewClosedCtx())
	}
	dropAt := vPick(8) // index of the lost packet among all packets put on the wire
	dropAt2 := -1
	if vtier() > 0 {
		dropAt2 = dropAt + vPick(5) // thorough: a second lost packet (or none)
	}
	idx := 0
	wire := func(x, y *Association) int {
		n := 0
		for _, raw := range vWriterWake(x) {
			p := vDecode(raw)
			if p != nil && vHasShutdownChunk(p) {
				vassert(!x.hasPendingOrInflightData(), "SHUTDOWN / SHUTDOWN-ACK is never emitted while own data is pending or in flight")
			}
			if idx != dropAt && idx != dropAt2 {
				vInbound(y, raw)
			}
			idx++
			n++
		}
		return n
	}
	for round := 0; round < 20; round++ {
		n := wire(a, b)
		vFireAck(b)
		n += wire(b, a)
		vFireAck(a)
		if a.getState() == closed && b.getState() == closed {
			break
		}
		if n == 0 {
			// quiescent but not finished: the retransmission timers expire
			vFireAll(a)
			vFireAll(b)
		}
	}
	// the side that sent the final SHUTDOWN-COMPLETE closes at once; if that packet is the
	// lost one the peer closes when its transport does (outside this harness), so only
	// require: nobody is stuck short of the final step, and data was delivered first.
	vassert(a.getState() == closed || a.getState() == shutdownAckSent, "initiator finished or is only waiting for the final SHUTDOWN-COMPLETE")
	vassert(b.getState() == closed || b.getState() == shutdownAckSent, "peer finished or is only waiting for the final SHUTDOWN-COMPLETE")
	vassert(a.getState() == closed || b.getState() == closed, "at least the side that saw SHUTDOWN-ACK is closed")
	if nmsg > 0 {
		bs := b.streams[1]
		vassert(bs != nil, "peer has the stream")
		if bs != nil {
			buf := make([]byte, 4)
			n, _, rerr := bs.ReadSCTP(buf)
			vassert(rerr == nil && n == 1 && buf[0] == sent[0], "data written before Shutdown is delivered despite the loss")
		}
	}
	vobserve("drop", uint64(dropAt))
	vcover("end")
}

// C08.L1d: data still in flight (sent, not yet acknowledged) at the time of the call.
// Shutdown must wait for it: the SHUTDOWN chunk is not emitted and SHUTDOWN-SENT is not
// entered before the data is acknowledged, also when its only transmission was lost.
func vh_C08_L1_inflight_at_shutdown() {
	a, b := vPair(vAssocOpts{pickTSN: true})
	s, err := a.OpenStream(1, PayloadTypeWebRTCBinary)
	vassert(err == nil, "open stream")
	d := nondetBytes(1)
	_, werr := s.WriteSCTP(d, PayloadTypeWebRTCBinary)
	vassert(werr == nil, "write accepted")
	lost := vPick(2) == 1
	for _, raw := range vWriterWake(a) { // the data goes on the wire before Shutdown is called
		vassert(vDecode(raw) != nil, "decodes")
		if !lost {
			vInbound(b, raw)
		}
	}
	vassert(a.inflightQueue.size() == 1 && a.pendingQueue.size() == 0, "the message is in flight, nothing pending")
	_ = a.Shutdown(vNewClosedCtx())
	vassert(a.getState() == shutdownPending && !a.willSendShutdown, "Shutdown waits for data in flight")
	net := &vNet{a: a, b: b, dropAt: -1, dupAt: -1}
	for round := 0; round < 12; round++ {
		c := 0
		for _, raw := range vWriterWake(a) {
			p := vDecode(raw)
			if p != nil && vHasShutdownChunk(p) {
				vassert(!a.hasPendingOrInflightData(), "SHUTDOWN is never emitted while own data is in flight")
			}
			vInbound(b, raw)
			c++
		}
		vFireAck(b)
		c += net.wire(b, a)
		vFireAck(a)
		if c == 0 {
			if vIsShut(a) && vIsShut(b) {
				break
			}
			vFireAll(a)
			vFireAll(b)
		}
	}
	vassert(vIsShut(a) && vIsShut(b), "both sides end closed")
	bs := b.streams[1]
	vassert(bs != nil, "peer has the stream")
	if bs != nil {
		buf := make([]byte, 4)
		n, _, rerr := bs.ReadSCTP(buf)
		vassert(rerr == nil && n == 1 && buf[0] == d[0], "the message in flight at the time of the call is delivered before the association closes")
	}
	vcover("end")
}

// a context whose Done() is evaluated by a parked blocking writer: at that moment the
// association is shut down underneath it (the interleaving "shutdown begins while a
// writer is blocked"), and the channel returned never fires.
type vShutdownWhileParkedCtx struct {
	a    *Association
	peer bool
	done bool
}

func (c *vShutdownWhileParkedCtx) Deadline() (time.Time, bool) { return time.Time{}, false }
func (c *vShutdownWhileParkedCtx) Err() error                  { return nil }
func (c *vShutdownWhileParkedCtx) Value(any) any               { return nil }
func (c *vShutdownWhileParkedCtx) Done() <-chan struct{} {
	if !c.done {
		c.done = true
		if c.peer {
			_ = vDeliver(c.a, &chunkShutdown{cumulativeTSNAck: c.a.cumulativeTSNAckPoint})
		} else {
			_ = c.a.Shutdown(vNewClosedCtx())
		}
	}
	return nil
}

// C08.L2b: a blocking write that is parked when shutdown begins (locally or by the
// peer's SHUTDOWN) is woken and rejected; it queues nothing.
func vh_C08_L2_parked_writer_rejected() {
	a, _ := vNewAssocOpts(vAssocOpts{blockWrite: true})
	s, err := a.OpenStream(1, PayloadTypeWebRTCBinary)
	vassert(err == nil, "open stream")
	_, werr := s.WriteSCTP(nondetBytes(2), PayloadTypeWebRTCBinary)
	vassert(werr == nil && a.writePending, "first write accepted, the gate is closed")
	pend := a.pendingQueue.size()
	chunks, _ := s.packetize(nondetBytes(3), PayloadTypeWebRTCBinary)
	ctx := &vShutdownWhileParkedCtx{a: a, peer: vPick(2) == 1}
	serr := a.sendPayloadData(ctx, chunks)
	vassert(ctx.done, "the writer was parked when shutdown began")
	vassert(a.getState() != established, "shutdown has begun")
	vassert(serr != nil, "a write that was blocked when shutdown began is rejected")
	vassert(a.pendingQueue.size() == pend, "and queues nothing")
	vcover("end")
}

// C08.L4: DATA arriving in SHUTDOWN-SENT (the peer is still draining). Every such chunk —
// in order, above a hole, or a duplicate — is answered at once by a SACK and a SHUTDOWN
// whose cumulative TSN ack is the cumulative point (never a TSN beyond a hole), and the
// T2 timer is running again afterwards, so the SHUTDOWN keeps being repeated until the
// peer has seen it.
func vh_C08_L4_data_in_shutdown_sent() {
	a, _ := vNewAssoc()
	cum := a.peerLastTSN()
	a.setState(shutdownSent)
	a.t2Shutdown.start(a.rtoMgr.getRTO())
	steps := 2
	var sent []uint32
	for i := 0; i < steps; i++ {
		var off uint32
		switch vPick(3) {
		case 0:
			off = 1 // in order
		case 1:
			off = 3 // above a hole
		case 2:
			if len(sent) == 0 {
				off = 1
			} else {
				off = sent[len(sent)-1] // the same chunk again
			}
		}
		sent = append(sent, off)
		before := a.peerLastTSN()
		vassert(vDeliver(a, vDataChunk(a, cum+off, 2, false, 1)) == nil, "DATA ok")
		nSack, nShutdown := 0, 0
		for _, raw := range vWriterWake(a) {
			p := vDecode(raw)
			vassert(p != nil, "packet decodes")
			for _, c := range p.chunks {
				switch x := c.(type) {
				case *chunkSelectiveAck:
					nSack++
					vassert(x.cumulativeTSNAck == a.peerLastTSN(), "the SACK carries the cumulative point")
				case *chunkShutdown:
					nShutdown++
					vassert(x.cumulativeTSNAck == a.peerLastTSN(), "the SHUTDOWN acknowledges exactly the cumulative point, never a TSN beyond a hole")
				}
			}
		}
		vassert(!vBefore(a.peerLastTSN(), before), "the cumulative point does not move back")
		vassert(nSack >= 1, "DATA received in SHUTDOWN-SENT is acknowledged at once")
		vassert(nShutdown == 1, "and answered with a SHUTDOWN")
		vassert(a.t2Shutdown.isRunning(), "T2 runs again once that SHUTDOWN has been sent")
		vassert(a.getState() == shutdownSent, "still SHUTDOWN-SENT")
	}
	vcover("end")
}

// C08.L5: shutdown racing with a write or with the peer's own SHUTDOWN, under one context
// switch (= C20.L5): a write that returned success is sent, and the two shutdowns end in
// SHUTDOWN-ACK-SENT whichever is processed first.
func vh_C08_L5_shutdown_racing_with_write_or_peer_shutdown() { vh_C20_L5_racing_api_calls() }

// C08.L6: the closure reaches every reader. A stream whose reader's last read had timed out
// (deadline error stored, deadline not re-armed yet) still gets the closure error when the
// shutdown sequence completes (SHUTDOWN COMPLETE received in SHUTDOWN-ACK-SENT).
func vh_C08_L6_closure_error_replaces_deadline_error() {
	a, conn := vNewAssoc()
	s, err := a.OpenStream(1, PayloadTypeWebRTCBinary)
	vassert(err == nil, "open stream")
	s.lock.Lock()
	s.readErr = ErrReadDeadlineExceeded
	s.lock.Unlock()
	a.setState(shutdownAckSent)
	vassert(vDeliver(a, &chunkShutdownComplete{}) == nil, "SHUTDOWN COMPLETE is not fatal to the read loop")
	conn.failReads = true
	a.readLoop() // the transport is closed: the read loop ends
	vassert(a.getState() == closed, "closed")
	vassert(s.readErr != nil && !errors.Is(s.readErr, ErrReadDeadlineExceeded), "the stream reports the closure, not the stale deadline error")
	_ = s.SetReadDeadline(time.Time{})
	vassert(s.readErr != nil, "re-arming or clearing the deadline afterwards does not wipe the closure error")
	vcover("end")
}

// C08.L7: the peer's SHUTDOWN is an acknowledgement like any other. The side that receives
// the SHUTDOWN has two messages of a partially reliable stream (retransmission limit 0)
// outstanding: the first arrived but its SACK was lost, the second was lost and has been
// given up. The cumulative ack for the first reaches it only inside the SHUTDOWN chunk: the
// sender-side bookkeeping for abandoned data advances all the same, the peer is told to skip
// the second message, and the shutdown completes on both sides.
func vh_C08_L7_shutdown_chunk_acknowledges_partially_reliable_data() {
	il := vPick(2) == 1
	a, b := vPair(vAssocOpts{interleaving: il, pickTSN: true, mtu: 36})
	a.useForwardTSN, a.useIForwardTSN = !il, il
	b.useForwardTSN, b.useIForwardTSN = !il, il
	s, err := b.OpenStream(1, PayloadTypeWebRTCBinary)
	vassert(err == nil, "open stream")
	s.SetReliabilityParams(vPick(2) == 1, ReliabilityTypeRexmit, 0)
	_, w1 := s.WriteSCTP(nondetBytes(1), PayloadTypeWebRTCBinary)
	_, w2 := s.WriteSCTP(nondetBytes(1), PayloadTypeWebRTCBinary)
	vassert(w1 == nil && w2 == nil, "writes accepted")
	pkts := vWriterWake(b)
	vassert(len(pkts) == 2, "one message per packet")
	vInbound(a, pkts[0]) // the second packet is lost
	sackLost := vPick(2) == 1
	vFireAck(a)
	for _, raw := range vWriterWake(a) {
		if !sackLost {
			vInbound(b, raw)
		}
	}
	_ = a.Shutdown(vNewClosedCtx())
	net := &vNet{a: a, b: b, dropAt: -1, dupAt: -1}
	for round := 0; round < 20; round++ {
		c := net.wire(a, b)
		vFireAck(b)
		c += net.wire(b, a)
		vFireAck(a)
		if c == 0 {
			if vIsShut(a) && vIsShut(b) {
				break
			}
			vFireAll(a)
			vFireAll(b)
		}
	}
	vassert(vIsShut(a) && vIsShut(b), "both sides end closed: data given up on does not keep the shutdown from completing")
	vcover("end")
}

// C08.L8: Shutdown called while the writer is inside the transport is acted upon at once (= C20.L10).
func vh_C08_L8_shutdown_during_a_transport_write_is_served() {
	vh_C20_L10_call_during_a_transport_write_is_served()
}

// C08.L9: a repeated SHUTDOWN is answered again. In SHUTDOWN-ACK-SENT (the first SHUTDOWN ACK
// was lost) the peer's retransmitted SHUTDOWN arrives: the writer is woken, the SHUTDOWN ACK
// goes out again and T2 is running afterwards, so the exchange cannot get stuck with both
// sides waiting.
func vh_C08_L9_repeated_shutdown_is_answered_again() {
	a, _ := vNewAssoc()
	a.setState(shutdownAckSent)
	vassert(a.t2Shutdown.start(a.rtoMgr.getRTO()), "T2 running")
	_ = vWriterWake(a)
	vassert(vDeliver(a, &chunkShutdown{cumulativeTSNAck: a.cumulativeTSNAckPoint}) == nil, "SHUTDOWN ok")
	n := 0
	for _, raw := range vWriterWake(a) {
		for _, c := range vDecode(raw).chunks {
			if _, ok := c.(*chunkShutdownAck); ok {
				n++
			}
		}
	}
	vassert(n == 1, "the SHUTDOWN ACK is sent again at once (the writer was woken)")
	vassert(a.t2Shutdown.isRunning(), "and T2 is running")
	vcover("end")
}

// C08.L10: a stream the peer opened with its last messages can still be accepted after the
// association has closed. Data arrives on a new stream (it is queued for AcceptStream), then
// the shutdown completes before the application has accepted it: AcceptStream hands the
// stream out first - its messages are readable - and reports end-of-file only afterwards.
func vh_C08_L10_stream_queued_for_accept_survives_the_shutdown() {
	a, b := vPair(vAssocOpts{pickTSN: true})
	s, err := a.OpenStream(1, PayloadTypeWebRTCBinary)
	vassert(err == nil, "open stream")
	m := nondetBytes(1)
	_, werr := s.WriteSCTP(m, PayloadTypeWebRTCBinary)
	vassert(werr == nil, "write accepted")
	_ = a.Shutdown(vNewClosedCtx())
	net := &vNet{a: a, b: b, dropAt: -1, dupAt: -1}
	net.settle(20, 4)
	vassert(vIsShut(a) && vIsShut(b), "both sides end closed")
	// the read loop has ended (the transport reported an error that is not io.EOF, as a UDP
	// or DTLS transport does after Close): on its way out it unregisters every stream with
	// that error, closes the accept queue and says so
	b.lock.Lock()
	for _, bs := range b.streams {
		b.unregisterStream(bs, vConnErr{})
	}
	b.lock.Unlock()
	close(b.acceptCh)
	close(b.readLoopCloseCh)
	vMustNotBlock("AcceptStream returns")
	st, aerr := b.AcceptStream()
	vMayBlock()
	vassert(aerr == nil && st != nil, "the stream queued before the closure is still handed out")
	if st != nil {
		buf := make([]byte, 4)
		vMustNotBlock("a read on a stream of a closed association returns")
		n, _, rerr := st.ReadSCTP(buf)
		vassert(rerr == nil && n == 1 && buf[0] == m[0], "with the message the sender's Shutdown had waited for: data delivered before the closure is read before the closure is reported")
		_, _, rerr2 := st.ReadSCTP(buf)
		vMayBlock()
		vassert(rerr2 != nil, "then the closure")
	}
	vMustNotBlock("AcceptStream returns")
	_, aerr2 := b.AcceptStream()
	vMayBlock()
	vassert(aerr2 == io.EOF, "then end-of-file")
	vcover("end")
}

// C08.L11: timer callbacks run without the timer's own mutex (a T2 expiry colliding with a
// handler that stops T2 under the association lock cannot deadlock) (= C19.L3).
func vh_C08_L11_timer_callbacks_run_unlocked() { vh_C19_L3_retry_law() }

// C08.L12: when the writer meets a transport that is gone (any write error, io.EOF included)
// it closes the transport so that the reader ends too and the streams report closure (= C09.L4).
func vh_C08_L12_write_failure_ends_the_reader_too() { vh_C09_L4_write_failure() }
