//go:build verif

package sctp

import "time"

// C07 — abandoned messages never block or destroy anything else (step-level lemmas; the
// end-to-end scenario is vh_C07_L1_abandoned_does_not_block in cxfer.go).

// C07.L2: the sender advances its ack point over abandoned chunks only, and the
// FORWARD-TSN it builds names exactly the streams whose abandoned ordered messages it
// skips. Three chunks in flight on two streams, each independently abandoned, gap-acked
// or outstanding; then a SACK (cumulative ack unchanged) or a T3 expiry.
func vh_C07_L2_advance_only_over_abandoned() {
	vStub("setNewRTT")
	il := vPick(2) == 1
	a, _ := vNewAssocOpts(vAssocOpts{interleaving: il})
	a.useForwardTSN, a.useIForwardTSN = !il, il
	s1, _ := a.OpenStream(1, PayloadTypeWebRTCBinary)
	s2, _ := a.OpenStream(2, PayloadTypeWebRTCBinary)
	ssn0 := nondetU16() // the stream has carried any number of ordered messages (wrap included)
	s1.sequenceNumber = ssn0
	s1.nextOrderedMID = uint32(ssn0) + 0xffff0000
	for i := 0; i < 3; i++ {
		st := s1
		if i == 1 {
			st = s2
		}
		_, werr := st.WriteSCTP(make([]byte, 1+i), PayloadTypeWebRTCBinary)
		vassert(werr == nil, "write accepted")
	}
	a.cwnd, a.rwnd = 1<<20, 1<<20
	budget, consumed := int64(0), false
	a.lock.Lock()
	chunks, _ := a.popPendingDataChunksToSend(&budget, &consumed)
	a.lock.Unlock()
	vassert(len(chunks) == 3, "three chunks in flight")
	base := a.cumulativeTSNAckPoint
	var abandoned [3]bool
	var gaps []gapAckBlock
	for i, c := range chunks {
		switch vPick(3) {
		case 1:
			c.setAbandoned(true)
			abandoned[i] = true
		case 2:
			gaps = append(gaps, gapAckBlock{uint16(i + 1), uint16(i + 1)})
		}
	}
	start := uint32(0) // chunks below start are acknowledged cumulatively by the SACK
	switch vPick(3) {
	case 0:
		vassert(vDeliver(a, &chunkSelectiveAck{cumulativeTSNAck: base, advertisedReceiverWindowCredit: 1 << 20, gapAckBlocks: gaps}) == nil, "SACK ok")
	case 1:
		// the SACK also moves the cumulative ack point over the first chunk (possibly across 2^32)
		start = 1
		var g2 []gapAckBlock
		for _, g := range gaps {
			if g.start >= 2 {
				g2 = append(g2, gapAckBlock{g.start - 1, g.end - 1})
			}
		}
		vassert(vDeliver(a, &chunkSelectiveAck{cumulativeTSNAck: base + 1, advertisedReceiverWindowCredit: 1 << 20, gapAckBlocks: g2}) == nil, "SACK ok")
		abandoned[0] = false
	case 2:
		a.t3RTX.start(1000)
		vassert(vFireRtx(a, a.t3RTX), "T3 expires")
	}
	adv := a.advancedPeerTSNAckPoint - base
	vassert(adv >= start && adv <= 3, "the advanced ack point stays within the flight and never falls behind the cumulative ack point")
	for i := int(start); i < 3; i++ {
		if uint32(i) < adv {
			vassert(abandoned[i], "the advanced ack point never passes a chunk that is not abandoned")
		}
	}
	if adv < 3 {
		vassert(!abandoned[adv], "the advance stops only at a chunk that is not abandoned")
	}
	vassert(a.willSendForwardTSN == (adv > start), "a forward-TSN is requested exactly when there is something to skip")
	if adv > start {
		var fwdStreams [3]bool // stream ids 1, 2 seen in the chunk
		var newCum uint32
		var seq1 uint16
		var mid1 uint32
		found := false
		for _, raw := range vWriterWake(a) {
			p := vDecode(raw)
			for _, c := range p.chunks {
				switch x := c.(type) {
				case *chunkForwardTSN:
					found, newCum = true, x.newCumulativeTSN
					for _, e := range x.streams {
						vassert(e.identifier == 1 || e.identifier == 2, "only existing streams are named")
						fwdStreams[e.identifier] = true
						if e.identifier == 1 {
							seq1 = e.sequence
						}
					}
				case *chunkIForwardTSN:
					found, newCum = true, x.newCumulativeTSN
					for _, e := range x.streams {
						vassert(e.identifier == 1 || e.identifier == 2, "only existing streams are named")
						vassert(!e.unordered, "ordered messages are reported as ordered")
						fwdStreams[e.identifier] = true
						if e.identifier == 1 {
							mid1 = e.messageIdentifier
						}
					}
				}
			}
		}
		vassert(found, "the forward-TSN goes out")
		vassert(newCum == a.advancedPeerTSNAckPoint, "it carries the advanced ack point")
		want1 := abandoned[0] || (adv >= 3 && abandoned[2])
		want2 := adv >= 2 && abandoned[1]
		vassert(fwdStreams[1] == want1 && fwdStreams[2] == want2, "exactly the streams with a skipped ordered message are listed")
		if want1 {
			last := uint16(0) // stream 1 carries chunks 0 and 2: messages ssn0 and ssn0+1
			if adv >= 3 && abandoned[2] {
				last = 1
			}
			if il {
				vassert(mid1 == uint32(ssn0)+0xffff0000+uint32(last), "the largest skipped MID is reported (serial order, also across the wrap)")
			} else {
				vassert(seq1 == ssn0+last, "the largest skipped SSN is reported (serial order, also across the wrap)")
			}
		}
	}
	vcover("end")
}

// C07.L3: the receiver's skip is exact at every cursor position (including the 16-bit SSN
// wrap and the 32-bit MID wrap): incomplete messages at or below the reported number are
// dropped, a complete one stays readable, the cursor becomes reported+1 only if it was
// behind, and the message right after the skipped one is delivered.
func vh_C07_L3_receiver_skip_exact() {
	iData := vPick(2) == 1
	r := newReassemblyQueue(3, 0)
	next16 := nondetU16()
	next32 := nondetU32()
	r.nextSSN, r.nextMID = next16, next32
	withBefore := vPick(2) == 1 // a complete, still unread message below the skipped one
	d16 := uint16(vPick(3))     // the skipped message is the next expected one, or 1..2 further on
	if withBefore {
		d16 = 1 + uint16(vPick(2))
	}
	d32 := uint32(d16)
	base := nondetU32()
	var before *vMsg
	if withBefore {
		before = vMakeMsg(3, iData, false, next16, next32, base-1, 1, PayloadTypeWebRTCBinary)
		r.push(before.chunks[0])
	}
	// an incomplete message at the skipped number, and a complete one right after it
	partial := vMakeMsg(3, iData, false, next16+d16, next32+d32, base, 2, PayloadTypeWebRTCBinary)
	after := vMakeMsg(3, iData, false, next16+d16+1, next32+d32+1, base+2, 1, PayloadTypeWebRTCString)
	r.push(partial.chunks[0]) // only the first fragment arrived
	r.push(after.chunks[0])
	vassert(r.isReadable() == withBefore, "only a complete message at the cursor is readable before the skip")
	if iData {
		r.forwardTSNForOrderedMID(next32 + d32)
		vassert(r.nextMID == next32+d32+1, "the cursor moves right behind the skipped message")
	} else {
		r.forwardTSNForOrdered(next16 + d16)
		vassert(r.nextSSN == next16+d16+1, "the cursor moves right behind the skipped message")
	}
	want := 1
	if withBefore {
		want = 2
		vassert(r.isReadable(), "a complete unread message below the skip point keeps the queue readable (its reader is woken)")
	}
	vassert(r.getNumBytes() == want, "the partially received abandoned message is dropped, nothing else")
	buf := make([]byte, 4)
	if withBefore {
		n, _, err := r.read(buf)
		vassert(err == nil && n == 1 && buf[0] == before.bytes[0], "a complete message below the skip point is still delivered")
		if iData {
			vassert(r.nextMID == next32+d32+1, "reading it does not move the cursor back onto the skipped message")
		} else {
			vassert(r.nextSSN == next16+d16+1, "reading it does not move the cursor back onto the skipped message")
		}
	}
	vassert(r.isReadable(), "the message after the skipped one becomes readable")
	n, ppi, err := r.read(buf)
	vassert(err == nil && n == 1 && buf[0] == after.bytes[0] && ppi == PayloadTypeWebRTCString, "and is delivered intact")
	// a stale forward-TSN (behind the cursor) changes nothing
	if iData {
		r.forwardTSNForOrderedMID(next32 + d32)
		vassert(r.nextMID == next32+d32+2, "a stale skip does not move the cursor back")
	} else {
		r.forwardTSNForOrdered(next16 + d16)
		vassert(r.nextSSN == next16+d16+2, "a stale skip does not move the cursor back")
	}
	vassert(len(r.orderedMIDMap) == len(r.orderedMID), "a message read from below the skip point leaves nothing behind in the message index")
	vobserve("d", uint64(d16))
	vcover("end")
}

// C07.L3b: one skip that covers several abandoned messages. Two or three consecutive
// ordered messages of a stream are each partly received (the first or the last fragment of
// two), optionally with a complete unread message between them, and a complete message
// follows; one forward-TSN reports the last of them: every partial message is dropped (the
// bytes held return to exactly those of the complete messages), the complete ones are
// delivered in order, nothing else is held. Cursor anywhere, wraps included.
func vh_C07_L3_skip_covers_several_partial_messages() {
	iData := vPick(2) == 1
	r := newReassemblyQueue(3, 0)
	next16 := nondetU16()
	next32 := nondetU32()
	r.nextSSN, r.nextMID = next16, next32
	base := nondetU32()
	k := 2 + vPick(2)
	completeAt := vPick(k + 1) // one of the k messages is complete instead of partial (k: none)
	var complete *vMsg
	for i := 0; i < k; i++ {
		d := uint16(i)
		if i == completeAt {
			complete = vMakeMsg(3, iData, false, next16+d, next32+uint32(d), base+uint32(2*i), 1, PayloadTypeWebRTCBinary)
			r.push(complete.chunks[0])
			continue
		}
		m := vMakeMsg(3, iData, false, next16+d, next32+uint32(d), base+uint32(2*i), 2, PayloadTypeWebRTCBinary)
		r.push(m.chunks[vPick(2)]) // only one of its two fragments arrived
	}
	after := vMakeMsg(3, iData, false, next16+uint16(k), next32+uint32(k), base+uint32(2*k), 1, PayloadTypeWebRTCString)
	afterLate := vPick(2) == 1 // the following message arrives before the skip, or after it (and before anything is read)
	if !afterLate {
		r.push(after.chunks[0])
	}
	if iData {
		r.forwardTSNForOrderedMID(next32 + uint32(k) - 1)
		vassert(r.nextMID == next32+uint32(k), "the cursor moves right behind the last skipped message")
	} else {
		r.forwardTSNForOrdered(next16 + uint16(k) - 1)
		vassert(r.nextSSN == next16+uint16(k), "the cursor moves right behind the last skipped message")
	}
	if afterLate {
		r.push(after.chunks[0])
	}
	want := 1
	if complete != nil {
		want = 2
	}
	vassert(r.getNumBytes() == want, "every partially received message covered by the skip is dropped, the complete ones stay")
	buf := make([]byte, 4)
	if complete != nil {
		n, _, err := r.read(buf)
		vassert(err == nil && n == 1 && buf[0] == complete.bytes[0], "a complete message below the skip point is still delivered, first")
	}
	n, ppi, err := r.read(buf)
	vassert(err == nil && n == 1 && buf[0] == after.bytes[0] && ppi == PayloadTypeWebRTCString, "the message after the skipped ones is delivered intact")
	vassert(r.getNumBytes() == 0 && !r.isReadable(), "nothing is left behind")
	if iData {
		vassert(len(r.orderedMID) == 0 && len(r.orderedMIDMap) == 0, "and nothing in the message index")
	} else {
		vassert(len(r.ordered) == 0, "and nothing in the ordered list")
	}
	vcover("end")
}

// C07.L2b: an I-FORWARD-TSN that skips an unordered and an ordered message of the same
// stream lists both, each with its own message identifier (the two identifier spaces are
// independent: any relation between the two numbers).
func vh_C07_L2_iforward_tsn_ordered_and_unordered_entries() {
	vStub("setNewRTT")
	a, _ := vNewAssocOpts(vAssocOpts{interleaving: true})
	a.useForwardTSN, a.useIForwardTSN = false, true
	s1, _ := a.OpenStream(1, PayloadTypeWebRTCBinary)
	u0, o0 := nondetU32(), nondetU32()
	s1.nextUnorderedMID, s1.nextOrderedMID = u0, o0
	unorderedFirst := vPick(2) == 1
	s1.SetReliabilityParams(unorderedFirst, ReliabilityTypeRexmit, 0)
	_, werr := s1.WriteSCTP(make([]byte, 1), PayloadTypeWebRTCBinary)
	vassert(werr == nil, "write accepted")
	s1.SetReliabilityParams(!unorderedFirst, ReliabilityTypeRexmit, 0)
	_, werr = s1.WriteSCTP(make([]byte, 2), PayloadTypeWebRTCBinary)
	vassert(werr == nil, "write accepted")
	a.cwnd, a.rwnd = 1<<20, 1<<20
	budget, consumed := int64(0), false
	a.lock.Lock()
	chunks, _ := a.popPendingDataChunksToSend(&budget, &consumed)
	a.lock.Unlock()
	vassert(len(chunks) == 2, "two chunks in flight")
	for _, c := range chunks {
		c.setAbandoned(true)
		c.setAllInflight()
	}
	base := a.cumulativeTSNAckPoint
	vassert(vDeliver(a, &chunkSelectiveAck{cumulativeTSNAck: base, advertisedReceiverWindowCredit: 1 << 20}) == nil, "SACK ok")
	vassert(a.advancedPeerTSNAckPoint == base+2 && a.willSendForwardTSN, "both abandoned messages are to be skipped")
	var fwd *chunkIForwardTSN
	for _, raw := range vWriterWake(a) {
		p := vDecode(raw)
		for _, c := range p.chunks {
			if x, ok := c.(*chunkIForwardTSN); ok {
				fwd = x
			}
		}
	}
	vassert(fwd != nil, "the I-FORWARD-TSN goes out")
	if fwd == nil {
		return
	}
	vassert(fwd.newCumulativeTSN == base+2, "it carries the advanced ack point")
	gotU, gotO := false, false
	for _, e := range fwd.streams {
		vassert(e.identifier == 1, "only the stream concerned is named")
		if e.unordered {
			vassert(!gotU && e.messageIdentifier == u0, "the skipped unordered message is listed once with its identifier")
			gotU = true
		} else {
			vassert(!gotO && e.messageIdentifier == o0, "the skipped ordered message is listed once with its identifier")
			gotO = true
		}
	}
	vassert(gotU && gotO, "the ordered and the unordered skipped message of one stream are both listed")
	vcover("end")
}

// C07.L4: a skip spares what follows it. Fragments of a reliable unordered message that sit
// right after the abandoned TSN and have already arrived survive the FORWARD-TSN (also
// when the receiver can advance its cumulative point over them at once); when the last
// fragment arrives the message is delivered intact.
func vh_C07_L4_skip_spares_following_fragments() {
	a, _ := vNewAssoc()
	a.useForwardTSN = true
	cum := a.peerLastTSN()
	nfrag := 2 + vPick(2) // fragments of the live message: the last one arrives after the skip
	m := vMakeMsg(5, false, true, 0, 0, cum+2, nfrag, PayloadTypeWebRTCString)
	for i := 0; i < nfrag-1; i++ {
		vassert(vDeliver(a, m.chunks[i]) == nil, "DATA ok")
	}
	fwd := &chunkForwardTSN{newCumulativeTSN: cum + 1} // TSN cum+1 was abandoned by the sender
	vassert(vDeliver(a, fwd) == nil, "FORWARD-TSN ok")
	vassert(a.peerLastTSN() == cum+uint32(nfrag), "the cumulative point moves over the skipped TSN and on over what was already received")
	vassert(vDeliver(a, m.chunks[nfrag-1]) == nil, "DATA ok")
	s := a.streams[5]
	vassert(s != nil, "stream exists")
	if s == nil {
		return
	}
	buf := make([]byte, 8)
	n, ppi, err := s.reassemblyQueue.read(buf)
	vassert(err == nil && n == nfrag && vBytesEq(buf[:n], m.bytes) && ppi == PayloadTypeWebRTCString, "the message next to the skipped TSN is delivered intact")
	vcover("end")
}

// C07.L3b: the message right behind a skipped one survives also when it is only partly
// received at the time of the skip (DATA by SSN / I-DATA by MID, symbolic cursors): its
// fragments are kept, and when the rest arrives it is delivered intact.
func vh_C07_L3_partly_received_follower_survives_skip() {
	iData := vPick(2) == 1
	r := newReassemblyQueue(3, 0)
	next16, next32, base := nondetU16(), nondetU32(), nondetU32()
	r.nextSSN, r.nextMID = next16, next32
	partial := vMakeMsg(3, iData, false, next16, next32, base, 2, PayloadTypeWebRTCBinary)
	follower := vMakeMsg(3, iData, false, next16+1, next32+1, base+2, 3, PayloadTypeWebRTCString)
	r.push(partial.chunks[0])
	got := vPick(3) // which fragment of the follower is still missing at the time of the skip
	for i, c := range follower.chunks {
		if i != got {
			r.push(c)
		}
	}
	if iData {
		r.forwardTSNForOrderedMID(next32)
	} else {
		r.forwardTSNForOrdered(next16)
	}
	vassert(r.getNumBytes() == 2, "only the abandoned message is dropped; the fragments of the next one are kept")
	r.push(follower.chunks[got])
	vassert(r.isReadable(), "the next message completes")
	buf := make([]byte, 8)
	n, ppi, err := r.read(buf)
	vassert(err == nil && n == 3 && vBytesEq(buf[:n], follower.bytes) && ppi == PayloadTypeWebRTCString, "and is delivered intact")
	vcover("end")
}

// C07.L5: the receiver's cumulative jump clears exactly the skipped range of its TSN bitmap,
// so nothing received behind it is forgotten and nothing skipped stays marked (= C05.S1).
func vh_C07_L5_skip_clears_exactly_its_range() { vh_C05_step_clear_range() }

// C07.L6: a message given up on while only part of it fits the congestion window does not
// wedge the sender. A six-fragment message with retransmission limit 0..1 on stream 1, a
// reliable message on stream 2 written right after it, a congestion window of four fragments;
// the first 4..6 data packets are lost, then the network heals (timers expire whenever
// nothing moves). In the end the reliable message is delivered, the sender's flight and
// pending queue are empty (the given-up fragments were either retransmitted or skipped,
// never left in limbo), and the peer was told to skip whatever was abandoned.
func vh_C07_L6_given_up_message_larger_than_cwnd_does_not_wedge_the_sender() {
	il := vPick(2) == 1
	a, b := vPair(vAssocOpts{interleaving: il, mtu: 36, pickTSN: true})
	a.useForwardTSN, a.useIForwardTSN = !il, il
	b.useForwardTSN, b.useIForwardTSN = !il, il
	s1, err := a.OpenStream(1, PayloadTypeWebRTCBinary)
	vassert(err == nil, "open stream")
	s1.SetReliabilityParams(vPick(2) == 1, ReliabilityTypeRexmit, uint32(vPick(2)))
	s2, err2 := a.OpenStream(2, PayloadTypeWebRTCBinary)
	vassert(err2 == nil, "open stream")
	maxp := int(a.maxPayloadSize)
	// six fragments; four fit the congestion window, and four are also all that fits the
	// one-MTU window that a T3 expiry leaves (so nothing new can be sent while they occupy it)
	_, w1 := s1.WriteSCTP(make([]byte, 5*maxp+1), PayloadTypeWebRTCBinary)
	later := nondetBytes(1)
	_, w2 := s2.WriteSCTP(later, PayloadTypeWebRTCString)
	vassert(w1 == nil && w2 == nil, "writes accepted")
	a.cwnd = uint32(4 * maxp)
	net := &vNet{a: a, b: b, dropAt: -1, dupAt: -1, drops: map[int]bool{}}
	lost := 4 + vPick(3)
	for i := 0; i < lost; i++ {
		net.drops[i] = true // packets from a are the only ones until something arrives at b
	}
	net.settle(60, 12)
	vassert(a.inflightQueue.size() == 0 && a.pendingQueue.size() == 0, "the sender is drained: nothing given up on stays in limbo")
	bs2 := b.streams[2]
	vassert(bs2 != nil, "the receiver has the reliable stream")
	if bs2 != nil {
		got, _ := vReadAll(bs2, make([]byte, 8))
		vassert(len(got) == 1 && vBytesEq(got[0], later), "the reliable message behind the given-up one is delivered")
	}
	vassert(s1.BufferedAmount() == 0 && s2.BufferedAmount() == 0, "buffered amounts return to zero")
	if bs1 := b.streams[1]; bs1 != nil {
		got, _ := vReadAll(bs1, make([]byte, 64))
		vassert(len(got) <= 1, "the given-up message is delivered at most once (whole, if its retransmissions got through after all)")
	}
	vassert(b.getMyReceiverWindowCredit() == b.maxReceiveBufferSize, "once everything readable is read the receiver holds nothing: no fragment of a given-up message stays behind")
	vcover("end")
}

// C07.L7: one FORWARD-TSN that skips an ordered and an unordered message of the same stream
// purges both (= C11.L2c); nothing of an abandoned message stays held.
func vh_C07_L7_skip_purges_ordered_and_unordered_of_one_stream() {
	vh_C11_L2_skip_purges_ordered_and_unordered_of_one_stream()
}

// C07.L8: a skip wakes the reader it unblocks. The first ordered message of a stream is
// missing, the second is complete and held behind it; a reader is parked in a real ReadSCTP;
// from another goroutine the (I-)FORWARD-TSN that skips the first message arrives: the parked
// read returns the second message (the reader does not have to wait for further traffic).
// DATA and I-DATA, cursor anywhere incl. the wraps.
func vh_C07_L8_skip_wakes_a_parked_reader() {
	il := vPick(2) == 1
	a, _ := vNewAssocOpts(vAssocOpts{interleaving: il, fixedTSN: true})
	a.useForwardTSN, a.useIForwardTSN = !il, il
	cum := a.peerLastTSN()
	s, err := a.OpenStream(4, PayloadTypeWebRTCBinary)
	vassert(err == nil, "open stream")
	ssn0, mid0 := nondetU16(), nondetU32()
	s.reassemblyQueue.nextSSN, s.reassemblyQueue.nextMID = ssn0, mid0
	second := vDataChunk(a, cum+2, 4, false, 2) // TSN cum+1 (the first message) never arrives
	second.streamSequenceNumber, second.messageIdentifier = ssn0+1, mid0+1
	want := []byte{second.userData[0], second.userData[1]}
	vassert(vDeliver(a, second) == nil, "DATA ok")
	vassert(!s.reassemblyQueue.isReadable(), "the second message is held behind the missing first one")
	var fwd chunk
	if il {
		fwd = &chunkIForwardTSN{newCumulativeTSN: cum + 1, streams: []chunkIForwardTSNStream{{identifier: 4, messageIdentifier: mid0}}}
	} else {
		fwd = &chunkForwardTSN{newCumulativeTSN: cum + 1, streams: []chunkForwardTSNStream{{identifier: 4, sequence: ssn0}}}
	}
	vGoLive = true
	vGo(func() {
		vSleep(50 * time.Millisecond) // the reader is parked by now
		_ = vDeliver(a, fwd)
	})
	buf := make([]byte, 8)
	vMustNotBlock("a reader parked on the stream is woken by the skip that makes a message readable")
	n, _, rerr := s.ReadSCTP(buf)
	vMayBlock()
	vassert(rerr == nil && n == 2 && buf[0] == want[0] && buf[1] == want[1], "the message behind the skipped one is delivered to the parked reader")
	vcover("end")
}
