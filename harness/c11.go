//go:build verif

package sctp

import "io"

// C11 — receive-window accounting is exact and inbound memory is bounded.

// C11.L1: the byte counter equals the bytes actually held, after every operation of
// a BMC-k sequence of pushes (arbitrary TSN/SSN/MID/FSN/flags, duplicates and stale
// numbers allowed), reads and forward-TSN purges on a fresh queue.
func vh_C11_L1_counter_exact() {
	iData := vPick(2) == 1
	r := newReassemblyQueue(3, 0)
	// arbitrary cursor positions (any history, including wrap)
	r.nextSSN = nondetU16()
	r.nextMID = nondetU32()
	// the association only hands over chunks whose TSN lies in its tracking window: all TSNs
	// of one history are within 2^16 of each other (any base, wrap included)
	tsnBase := nondetU32()
	steps := 2
	if vtier() > 0 {
		steps = 3
	}
	for i := 0; i < steps; i++ {
		switch vPick(3) {
		case 0, 1: // push twice as likely: arbitrary chunk
			c := &chunkPayloadData{
				streamIdentifier: 3, userData: make([]byte, 1+vPick(2)), unordered: nondetBool(),
				beginningFragment: nondetBool(), endingFragment: nondetBool(),
				tsn: tsnBase + uint32(nondetU16()), streamSequenceNumber: nondetU16(), messageIdentifier: nondetU32(),
				fragmentSequenceNumber: nondetU32(), iData: iData, payloadType: PayloadTypeWebRTCBinary,
			}
			_, err := r.pushWithError(c)
			vassert(err == nil, "no limit configured: push never reports a limit error")
		case 2:
			if vPick(2) == 0 {
				buf := make([]byte, 8*vPick(2)) // adequate or too short
				before := r.getNumBytes()
				n, _, err := r.read(buf)
				if err == nil {
					vassert(r.getNumBytes() == before-n, "a successful read releases exactly the bytes returned")
				} else {
					vassert(r.getNumBytes() == before, "a failed read releases nothing")
				}
			} else if iData {
				if nondetBool() {
					r.forwardTSNForOrderedMID(nondetU32())
				} else {
					r.forwardTSNForUnorderedMID(nondetU32())
				}
			} else {
				if nondetBool() {
					last := nondetU16()
					r.forwardTSNForOrdered(last)
					for _, set := range r.ordered {
						if !set.isComplete() {
							vassert(set.ssn-last-1 < 1<<15, "no incomplete ordered message at or below the skipped SSN survives the purge")
						}
					}
				} else {
					newCum := nondetU32()
					r.forwardTSNForUnordered(newCum)
					for _, c := range r.unorderedChunks {
						// (fragments more than half the space away are ambiguous and not judged)
						vassert(c.tsn-newCum-1 < 1<<31 || newCum-c.tsn > 1<<30, "no unordered fragment at or below the new cumulative TSN survives the purge")
					}
				}
			}
		}
		vassert(r.getNumBytes() == vRQHeldBytes(r), "byte counter equals the user bytes held")
		vassert(len(r.orderedMIDMap) == len(r.orderedMID), "the index of ordered I-DATA messages holds exactly the messages queued (nothing is retained behind the counter)")
	}
	vobserve("bytes", uint64(r.getNumBytes()))
	vcover("end")
}

// C18.L3 / C11: a read into a buffer that is too small reports a short buffer and
// leaves the message and the counter untouched; an adequate read then returns it once.
func vh_C18_L3_short_buffer() {
	iData := vPick(2) == 1
	unordered := vPick(2) == 1
	r := newReassemblyQueue(3, 0)
	base := nondetU32()
	ssn := nondetU16()
	mid := nondetU32()
	r.nextSSN, r.nextMID = ssn, mid
	nfrag := 1 + vPick(3)
	m := vMakeMsg(3, iData, unordered, ssn, mid, base, nfrag, PayloadTypeWebRTCString)
	for _, k := range vPermute(nfrag) {
		r.push(m.chunks[k])
	}
	vassert(r.isReadable(), "complete message is readable")
	small := vPick(nfrag) // 0..nfrag-1 bytes: always too small
	n, _, err := r.read(make([]byte, small))
	vassert(err == io.ErrShortBuffer, "short buffer is reported")
	vassert(n == nfrag, "short read reports the needed size")
	vassert(r.getNumBytes() == nfrag && r.isReadable(), "short read leaves message and counter in place")
	buf := make([]byte, nfrag+1)
	n, ppi, err := r.read(buf)
	vassert(err == nil && n == nfrag, "adequate read returns the whole message")
	vassert(ppi == PayloadTypeWebRTCString, "PPI preserved")
	vassert(vBytesEq(buf[:n], m.bytes), "message bytes intact after a short read")
	vassert(r.getNumBytes() == 0 && !r.isReadable(), "message is delivered once")
	_, _, err = r.read(buf)
	vassert(err != nil, "nothing more to read")
	vobserve("nfrag", uint64(nfrag))
	vcover("end")
}

// C11.L4: entry limits. With a descriptor limit configured, a chunk that would exceed it
// is not stored, the counter is unchanged and the association answers with a
// protocol-violation ABORT; below the limit nothing is refused.
func vh_C11_L4_entry_limit_abort() {
	il := vPick(2) == 1
	limit := uint32(1 + vPick(2))
	a, _ := vNewAssocOpts(vAssocOpts{interleaving: il, maxEntries: limit})
	cum := a.peerLastTSN()
	unordered := vPick(2) == 1
	sameMsg := !il && !unordered && vPick(2) == 1 // fragments of one ordered DATA message, or of distinct messages
	// limit+1 incomplete fragments
	for i := uint32(0); i <= limit; i++ {
		c := vDataChunk(a, cum+2+2*i, 4, unordered, 3)
		c.endingFragment = false
		c.streamSequenceNumber = uint16(i)
		c.messageIdentifier = i
		if sameMsg {
			c.streamSequenceNumber = 0
			c.beginningFragment = false
		}
		before := 0
		if s := a.streams[4]; s != nil {
			before = s.getNumBytesInReassemblyQueue()
		}
		vassert(vDeliver(a, c) == nil, "DATA is never fatal")
		s := a.streams[4]
		vassert(s != nil, "stream exists")
		if i < limit {
			vassert(!a.willSendAbort, "below the limit nothing is refused")
			vassert(s.getNumBytesInReassemblyQueue() == before+3, "accepted fragment is counted")
		} else {
			vassert(a.willSendAbort, "exceeding the entry limit is answered with ABORT")
			_, isPV := a.willSendAbortCause.(*errorCauseProtocolViolation)
			vassert(isPV, "the cause is a protocol violation")
			vassert(s.getNumBytesInReassemblyQueue() == before, "the refused chunk is not stored and not counted")
		}
	}
	vassert(a.getMyReceiverWindowCredit() == a.maxReceiveBufferSize-3*limit, "advertised credit reflects exactly the stored fragments")
	vcover("end")
}

// C11.L1b: a short-buffer read leaves the counter untouched (same obligation as vh_C18_L3).
func vh_C11_L1_short_read_keeps_counter() { vh_C18_L3_short_buffer() }

// C11.L2b: the advertised credit counts the bytes held on all streams together.
func vh_C11_L2_credit_across_streams() {
	a, _ := vNewAssocOpts(vAssocOpts{recvBuf: 4})
	cum := a.peerLastTSN()
	f1 := vDataChunk(a, cum+3, 4, true, 3)
	f1.endingFragment = false
	vassert(vDeliver(a, f1) == nil, "DATA ok")
	vassert(a.getMyReceiverWindowCredit() == 1, "credit = buffer - bytes held")
	if vPick(2) == 1 {
		// the application closes its own direction of that stream: the stream stays registered
		// (and keeps holding what it received) until the peer resets its side
		vassert(a.streams[4].Close() == nil, "local close")
		_ = vWriterWake(a)
		vassert(a.getMyReceiverWindowCredit() == 1, "bytes held by a half-closed stream still count against the window")
	}
	f2 := vDataChunk(a, cum+5, 6, true, 3) // accepted because some credit is left; the sum now exceeds the buffer
	f2.endingFragment = false
	vassert(vDeliver(a, f2) == nil, "DATA ok")
	vassert(a.getMyReceiverWindowCredit() == 0, "credit is zero (never negative or wrapped) when the streams together hold more than the buffer")
	vassert(a.createSelectiveAckChunkNoGaps().advertisedReceiverWindowCredit == 0, "and the SACK advertises zero")
	// with the window at zero a chunk above the highest TSN received is not stored
	f3 := vDataChunk(a, cum+9, 8, true, 1)
	vassert(vDeliver(a, f3) == nil, "DATA ok")
	s8 := a.streams[8]
	vassert(s8 == nil || s8.getNumBytesInReassemblyQueue() == 0, "nothing above the highest TSN is stored at zero window")
	vcover("end")
}

// C11.L5: the TSN admission window follows the configured receive buffer.
func vh_C11_L5_window_follows_buffer() {
	buf := nondetU32()
	vassume(buf >= 1)
	want := getMaxTSNOffset(buf)
	vassert(want >= minTSNOffset && want <= maxTSNOffset, "the tracking window stays between its fixed limits whatever the receive buffer size")
	if want > maxTSNOffset {
		return
	}
	cfg := &Config{NetConn: &vConn{}, LoggerFactory: vLoggerFactory{}, Name: "v", MaxReceiveBufferSize: buf}
	a := createAssociationFromConfigWithTsn(cfg, nondetU32())
	vassert(a.payloadQueue.maxTSNOffset >= want && a.payloadQueue.maxTSNOffset < want+64, "the tracking window is the one computed from the configured receive buffer")
	vassert(a.maxReceiveBufferSize == buf && a.getMyReceiverWindowCredit() == buf, "and the advertised credit starts at the configured buffer")
	vobserve("win", uint64(a.payloadQueue.maxTSNOffset))
	vcover("end")
}

// C11.L6: the advertised window returns to the full buffer after an abandoned, partially
// received message has been skipped (same obligation as vh_C07_L1, which ends with it).
func vh_C11_L6_return_to_full_after_skip() { vh_C07_L1_abandoned_does_not_block() }

// C11.L2c: one FORWARD-TSN that skips an ordered message of a stream also purges the stale
// unordered fragments that stream holds (a FORWARD-TSN never lists a stream for its
// unordered data): afterwards nothing is held and the whole buffer is advertised again.
func vh_C11_L2_skip_purges_ordered_and_unordered_of_one_stream() {
	a, _ := vNewAssocOpts(vAssocOpts{recvBuf: 8})
	a.useForwardTSN = true
	cum := a.peerLastTSN()
	u := vDataChunk(a, cum+2, 4, true, 2) // first fragment of an unordered message, never completed
	u.endingFragment = false
	o := vDataChunk(a, cum+3, 4, false, 3) // first fragment of an ordered message, never completed
	o.endingFragment = false
	vassert(vDeliver(a, u) == nil && vDeliver(a, o) == nil, "DATA ok")
	vassert(a.getMyReceiverWindowCredit() == 3, "five bytes held")
	fwd := &chunkForwardTSN{newCumulativeTSN: cum + 3, streams: []chunkForwardTSNStream{{identifier: 4, sequence: o.streamSequenceNumber}}}
	vassert(vDeliver(a, fwd) == nil, "FORWARD-TSN ok")
	s := a.streams[4]
	vassert(s != nil && s.getNumBytesInReassemblyQueue() == 0, "both abandoned fragments are gone")
	vassert(a.getMyReceiverWindowCredit() == 8, "and the advertised window is the full buffer again")
	vcover("end")
}

// C11.L1c: reading a complete message that a skip has overtaken releases everything it held,
// index entries included (= C07.L3, which ends with that assertion).
func vh_C11_L1_read_below_skip_point_releases_everything() { vh_C07_L3_receiver_skip_exact() }

// C11.L2d: an I-FORWARD-TSN purges the ordered and the unordered abandoned message of one
// stream (both entries survive the codec, = C07.L2b / C12.L1).
func vh_C11_L2_iforward_tsn_keeps_ordered_and_unordered_apart() {
	vh_C07_L2_iforward_tsn_ordered_and_unordered_entries()
}

// C11.L7: nothing beyond the window is stored *or tracked* (= C01.L4).
func vh_C11_L7_nothing_beyond_the_window_is_tracked() { vh_C01_L4_duplicate_suppression() }

// C11.L2e: one skip that covers several partly received messages releases all their bytes (= C07.L3b).
func vh_C11_L2_skip_covers_several_partial_messages() {
	vh_C07_L3_skip_covers_several_partial_messages()
}

// C11.L8: the window that goes on the wire is the real one. (a) The INIT a client sends and
// the INIT ACK a server returns advertise exactly the configured receive buffer, whatever its
// size (also below 1500 bytes). (b) With a buffer of 8 or 3000 bytes and one message of
// 1..7 bytes held, the SACK that is emitted advertises exactly buffer minus bytes held - also
// when that is less than a packet, less than half the buffer, or a single byte - and after the
// message has been read the next SACK advertises the whole buffer again.
func vh_C11_L8_advertised_window_is_exact() {
	if vPick(2) == 1 {
		buf := []uint32{1, 1000, 1499, 1500, 70000}[vPick(5)]
		vHandshakeRecvBuf = buf
		a := vHandshakeEndpoint(false, false)
		vHandshakeRecvBuf = 0
		if vPick(2) == 1 {
			a.initClient()
			for _, raw := range vWriterWake(a) {
				if init, ok := vDecode(raw).chunks[0].(*chunkInit); ok {
					vassert(init.advertisedReceiverWindowCredit == buf, "the INIT advertises the configured receive buffer")
					vcover("end")
				}
			}
			return
		}
		a.initServer()
		init := &chunkInit{}
		init.initiateTag, init.initialTSN = 1+nondetU32()%0xfffffffe, nondetU32()
		init.numOutboundStreams, init.numInboundStreams = 10, 10
		init.advertisedReceiverWindowCredit = 1 << 16
		setSupportedExtensions(&init.chunkInitCommon, false)
		raw, err := (&packet{sourcePort: 5000, destinationPort: 5000, chunks: []chunk{init}}).marshal(true)
		vassert(err == nil, "INIT marshals")
		vInbound(a, raw)
		for _, out := range vWriterWake(a) {
			if ack, ok := vDecode(out).chunks[0].(*chunkInitAck); ok {
				vassert(ack.advertisedReceiverWindowCredit == buf, "the INIT ACK advertises the configured receive buffer")
				vcover("end")
			}
		}
		return
	}
	buf := []uint32{8, 3000}[vPick(2)]
	a, _ := vNewAssocOpts(vAssocOpts{recvBuf: buf, fixedTSN: true})
	cum := a.peerLastTSN()
	k := 1 + vPick(7)
	vassert(vDeliver(a, vDataChunk(a, cum+1, 4, true, k)) == nil, "DATA ok")
	window := func() (uint32, bool) {
		vFireAck(a)
		for _, raw := range vWriterWake(a) {
			for _, c := range vDecode(raw).chunks {
				if sack, ok := c.(*chunkSelectiveAck); ok {
					return sack.advertisedReceiverWindowCredit, true
				}
			}
		}
		return 0, false
	}
	w, ok := window()
	vassert(ok && w == buf-uint32(k), "the SACK advertises exactly the buffer minus the bytes held, however little that is")
	n, _, rerr := a.streams[4].ReadSCTP(make([]byte, 8))
	vassert(rerr == nil && n == k, "the message is read")
	vassert(vDeliver(a, vDataChunk(a, cum+1, 4, true, 1)) == nil, "a duplicate makes the receiver acknowledge again")
	w, ok = window()
	vassert(ok && w == buf, "once everything has been read the whole buffer is advertised again")
	vcover("end")
}

// C11.L9: what a forward-TSN purges from the unordered queues is decided by the new cumulative
// TSN it carries (and, with I-DATA, by serial comparison of the message identifiers it
// names), not by where the cumulative point ends up. (a) DATA: TSN c+1 and c+2 were lost and
// abandoned, c+3 - the first fragment of a live reliable unordered message - has arrived;
// FORWARD-TSN(c+2) makes the cumulative point run on to c+3, but the fragment stays, the
// message completes with c+4 and is delivered; the window returns to full. (b) I-DATA: an
// incomplete unordered message with a message identifier just below 2^32 is purged by an
// I-FORWARD-TSN naming an identifier just above the wrap, and its bytes are released.
func vh_C11_L9_forward_tsn_purges_by_what_it_names() {
	if vPick(2) == 0 {
		a, _ := vNewAssocOpts(vAssocOpts{fixedTSN: true})
		a.useForwardTSN = true
		c := a.peerLastTSN()
		live := vMakeMsg(4, false, true, 0, 0, c+3, 2, PayloadTypeWebRTCString)
		vassert(vDeliver(a, live.chunks[0]) == nil, "DATA ok")
		vassert(vDeliver(a, &chunkForwardTSN{newCumulativeTSN: c + 2}) == nil, "FORWARD-TSN ok")
		vassert(a.peerLastTSN() == c+3, "the cumulative point runs on over the fragment already received")
		vassert(a.streams[4].getNumBytesInReassemblyQueue() == 1, "the live fragment above the skipped range is kept")
		vassert(vDeliver(a, live.chunks[1]) == nil, "DATA ok")
		buf := make([]byte, 8)
		vMustNotBlock("the completed message is readable")
		n, ppi, err := a.streams[4].ReadSCTP(buf)
		vMayBlock()
		vassert(err == nil && n == 2 && ppi == PayloadTypeWebRTCString && buf[0] == live.bytes[0] && buf[1] == live.bytes[1], "the live message is delivered whole")
		vassert(a.getMyReceiverWindowCredit() == a.maxReceiveBufferSize, "the window returns to the full buffer")
		vcover("end")
		return
	}
	r := newReassemblyQueue(3, 0)
	mid := uint32(0xfffffffe) + uint32(vPick(2))
	dead := vMakeMsg(3, true, true, 0, mid, nondetU32(), 2, PayloadTypeWebRTCBinary)
	r.push(dead.chunks[vPick(2)])
	vassert(r.getNumBytes() == 1, "one fragment of the abandoned message is held")
	r.forwardTSNForUnorderedMID(mid + 1 + uint32(vPick(2))) // 0xffffffff, 0 or 1: at or past the wrap
	vassert(r.getNumBytes() == 0, "the abandoned unordered message is purged although the identifier named lies past the 2^32 wrap")
	vcover("end")
}
