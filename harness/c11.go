//go:build verif

package sctp

import "io"

// C11 — receive-window accounting is exact and inbound memory is bounded.

// C11.L1: the byte counter equals the bytes actually held, after every operation of
// a BMC-k sequence of pushes (arbitrary TSN/SSN/MID/FSN/flags, duplicates and stale
// numbers allowed), reads and forward-TSN purges on a fresh queue.
func vh_C11_L1_counter_exact() {
	iData := vPick(2) == 1
	r := newReassemblyQueue(3, 0)
	// arbitrary cursor positions (any history, including wrap)
	r.nextSSN = nondetU16()
	r.nextMID = nondetU32()
	steps := 2
	if vtier() > 0 {
		steps = 3
	}
	for i := 0; i < steps; i++ {
		switch vPick(3) {
		case 0, 1: // push twice as likely: arbitrary chunk
			c := &chunkPayloadData{
				streamIdentifier: 3, userData: make([]byte, 1+vPick(2)), unordered: nondetBool(),
				beginningFragment: nondetBool(), endingFragment: nondetBool(),
				tsn: nondetU32(), streamSequenceNumber: nondetU16(), messageIdentifier: nondetU32(),
				fragmentSequenceNumber: nondetU32(), iData: iData, payloadType: PayloadTypeWebRTCBinary,
			}
			_, err := r.pushWithError(c)
			vassert(err == nil, "no limit configured: push never reports a limit error")
		case 2:
			if vPick(2) == 0 {
				buf := make([]byte, 8*vPick(2)) // adequate or too short
				before := r.getNumBytes()
				n, _, err := r.read(buf)
				if err == nil {
					vassert(r.getNumBytes() == before-n, "a successful read releases exactly the bytes returned")
				} else {
					vassert(r.getNumBytes() == before, "a failed read releases nothing")
				}
			} else if iData {
				if nondetBool() {
					r.forwardTSNForOrderedMID(nondetU32())
				} else {
					r.forwardTSNForUnorderedMID(nondetU32())
				}
			} else {
				if nondetBool() {
					r.forwardTSNForOrdered(nondetU16())
				} else {
					r.forwardTSNForUnordered(nondetU32())
				}
			}
		}
		vassert(r.getNumBytes() == vRQHeldBytes(r), "byte counter equals the user bytes held")
	}
	vobserve("bytes", uint64(r.getNumBytes()))
	vcover("end")
}

// C18.L3 / C11: a read into a buffer that is too small reports a short buffer and
// leaves the message and the counter untouched; an adequate read then returns it once.
func vh_C18_L3_short_buffer() {
	iData := vPick(2) == 1
	unordered := vPick(2) == 1
	r := newReassemblyQueue(3, 0)
	base := nondetU32()
	ssn := nondetU16()
	mid := nondetU32()
	r.nextSSN, r.nextMID = ssn, mid
	nfrag := 1 + vPick(3)
	m := vMakeMsg(3, iData, unordered, ssn, mid, base, nfrag, PayloadTypeWebRTCString)
	for _, k := range vPermute(nfrag) {
		r.push(m.chunks[k])
	}
	vassert(r.isReadable(), "complete message is readable")
	small := vPick(nfrag) // 0..nfrag-1 bytes: always too small
	n, _, err := r.read(make([]byte, small))
	vassert(err == io.ErrShortBuffer, "short buffer is reported")
	vassert(n == nfrag, "short read reports the needed size")
	vassert(r.getNumBytes() == nfrag && r.isReadable(), "short read leaves message and counter in place")
	buf := make([]byte, nfrag+1)
	n, ppi, err := r.read(buf)
	vassert(err == nil && n == nfrag, "adequate read returns the whole message")
	vassert(ppi == PayloadTypeWebRTCString, "PPI preserved")
	vassert(vBytesEq(buf[:n], m.bytes), "message bytes intact after a short read")
	vassert(r.getNumBytes() == 0 && !r.isReadable(), "message is delivered once")
	_, _, err = r.read(buf)
	vassert(err != nil, "nothing more to read")
	vobserve("nfrag", uint64(nfrag))
	vcover("end")
}

// C11.L4: entry limits. With a descriptor limit configured, a chunk that would exceed it
// is not stored, the counter is unchanged and the association answers with a
// protocol-violation ABORT; below the limit nothing is refused.
func vh_C11_L4_entry_limit_abort() {
	il := vPick(2) == 1
	limit := uint32(1 + vPick(2))
	a, _ := vNewAssocOpts(vAssocOpts{interleaving: il, maxEntries: limit})
	cum := a.peerLastTSN()
	unordered := vPick(2) == 1
	sameMsg := !il && !unordered && vPick(2) == 1 // fragments of one ordered DATA message, or of distinct messages
	// limit+1 incomplete fragments
	for i := uint32(0); i <= limit; i++ {
		c := vDataChunk(a, cum+2+2*i, 4, unordered, 3)
		c.endingFragment = false
		c.streamSequenceNumber = uint16(i)
		c.messageIdentifier = i
		if sameMsg {
			c.streamSequenceNumber = 0
			c.beginningFragment = false
		}
		before := 0
		if s := a.streams[4]; s != nil {
			before = s.getNumBytesInReassemblyQueue()
		}
		vassert(vDeliver(a, c) == nil, "DATA is never fatal")
		s := a.streams[4]
		vassert(s != nil, "stream exists")
		if i < limit {
			vassert(!a.willSendAbort, "below the limit nothing is refused")
			vassert(s.getNumBytesInReassemblyQueue() == before+3, "accepted fragment is counted")
		} else {
			vassert(a.willSendAbort, "exceeding the entry limit is answered with ABORT")
			_, isPV := a.willSendAbortCause.(*errorCauseProtocolViolation)
			vassert(isPV, "the cause is a protocol violation")
			vassert(s.getNumBytesInReassemblyQueue() == before, "the refused chunk is not stored and not counted")
		}
	}
	vassert(a.getMyReceiverWindowCredit() == a.maxReceiveBufferSize-3*limit, "advertised credit reflects exactly the stored fragments")
	vcover("end")
}

// C11.L1b: a short-buffer read leaves the counter untouched (same obligation as vh_C18_L3).
func vh_C11_L1_short_read_keeps_counter() { vh_C18_L3_short_buffer() }
