//go:build verif

package sctp

import (
	"encoding/binary"
	"math"
	"time"
)

// C19 — timer laws.

func vFinite(f float64) bool { return !math.IsNaN(f) && !math.IsInf(f, 0) }

// C19.L1: RTO stays within [RTO.min, RTO.max] for every RTT sample and every prior state.
// vRTOMax: quick tier uses three concrete configurations, thorough any value in [1000, 1e9].
func vRTOMax() float64 {
	rtoMax := nondetF64()
	vassume(vFinite(rtoMax) && rtoMax >= 1000 && rtoMax <= 1e9)
	return rtoMax
}

func vh_C19_L1_rto_bounds() {
	rtoMax := vRTOMax()
	m := newRTOManager(rtoMax)
	vassert(m.getRTO() == rtoInitial, "initial RTO is RTO.Initial")
	// arbitrary reachable-looking prior state
	srtt, rttvar, rtt := nondetF64(), nondetF64(), nondetF64()
	vassume(vFinite(srtt) && srtt >= 0 && srtt <= 1e12)
	vassume(vFinite(rttvar) && rttvar >= 0 && rttvar <= 1e12)
	vassume(vFinite(rtt) && rtt >= 0 && rtt <= 1e12)
	m.srtt, m.rttvar = srtt, rttvar
	first := srtt == 0
	got := m.setNewRTT(rtt)
	rto := m.getRTO()
	vassert(vFinite(rto), "RTO is finite")
	vassert(rto >= rtoMin, "RTO >= RTO.min (1 s)")
	vassert(rto <= rtoMax, "RTO <= RTO.max")
	vassert(got == m.srtt, "setNewRTT returns the new SRTT")
	vassert(vFinite(m.srtt) && m.srtt >= 0 && m.srtt <= 1e12, "SRTT stays finite, non-negative, bounded by the inputs' bound")
	vassert(vFinite(m.rttvar) && m.rttvar >= 0 && m.rttvar <= 1e12, "RTTVAR stays finite, non-negative, bounded")
	vassert(!first || (m.srtt == rtt && m.rttvar == rtt/2), "first sample: SRTT = R, RTTVAR = R/2")
	// the clamp is tight: when the raw value is inside the range it is used as is
	raw := m.srtt + 4*m.rttvar
	vassert(!(raw >= rtoMin && raw <= rtoMax) || rto == raw, "RTO = SRTT + 4*RTTVAR when inside [min,max]")
	m.reset()
	vassert(m.getRTO() == rtoInitial && m.srtt == 0 && m.rttvar == 0, "reset restores initial values")
	vobserve("rto_ge_2s", vb2u(rto >= 2000))
	vcover("end")
}

// C19.L2: back-off doubles up to RTO.max, for every expiry count.
func vh_C19_L2_backoff() {
	rtoMax := vRTOMax()
	rto := nondetF64()
	vassume(vFinite(rto) && rto >= 1 && rto <= 1e6) // also an RTO above the configured maximum (the initial RTO with a small RTO.max)
	var n uint
	if vtier() == 0 {
		n = []uint{0, 1, 7, 30, 31, 33}[vPick(6)]
	} else {
		n = uint(vPick(34)) // 0..33 expiries, each explored
	}
	cur := calculateNextTimeout(rto, n, rtoMax)
	next := calculateNextTimeout(rto, n+1, rtoMax)
	vassert(cur <= rtoMax, "back-off never exceeds RTO.max")
	vassert(cur >= rto || rto > rtoMax, "back-off never below the base RTO")
	vassert(next >= cur, "back-off is non-decreasing in the expiry count")
	if n < 31 {
		pow := float64(uint64(1) << n)
		if rto*pow <= rtoMax {
			vassert(cur == rto*pow, "timeout = RTO * 2^n while below RTO.max")
		} else {
			vassert(cur == rtoMax, "timeout = RTO.max once RTO * 2^n exceeds it")
		}
		if rto*pow*2 <= rtoMax {
			vassert(next == 2*cur, "each expiry doubles the timeout")
		}
	} else {
		vassert(cur == rtoMax, "timeout = RTO.max for n >= 31")
	}
	// far beyond: huge counts
	big := uint(nondetU64())
	vassume(big >= 31)
	vassert(calculateNextTimeout(rto, big, rtoMax) == rtoMax, "timeout = RTO.max for any n >= 31")
	vobserve("cur_is_max", vb2u(cur == rtoMax))
	vcover("end")
}

// ---- C19.L3: retry law of rtxTimer under every order of start/stop/expire/deliver.

type vRtxObserver struct {
	t         *rtxTimer // when set, callbacks check that the timer's mutex is free
	heldInCb  bool
	timeouts  int
	failures  int
	lastN     uint
	lastID    int
	inOrderOK bool
}

func (o *vRtxObserver) onRetransmissionTimeout(id int, n uint) {
	if o.t != nil && vMutexHeldNative(&o.t.mutex) {
		o.heldInCb = true
	}
	o.timeouts++
	if n != o.lastN+1 {
		o.inOrderOK = false
	}
	o.lastN = n
	o.lastID = id
}

func (o *vRtxObserver) onRetransmissionFailure(id int) {
	if o.t != nil && vMutexHeldNative(&o.t.mutex) {
		o.heldInCb = true
	}
	o.failures++
	o.lastID = id
}

func vh_C19_L3_retry_law() {
	maxRetrans := uint(vPick(3)) // 0 = unlimited, 1, 2
	obs := &vRtxObserver{inOrderOK: true}
	rtoMax := float64(60000)
	t := newRTXTimer(7, obs, maxRetrans, rtoMax)
	obs.t = t
	// reference model
	started, closed := false, false
	var n uint         // live expiries since last start
	inflight := 0      // expired callbacks not yet delivered
	liveInflight := -1 // index (countdown) of the in-flight callback that belongs to the current arming, -1 if none
	armed := false
	expTimeouts, expFailures := 0, 0
	steps := 5
	if vtier() > 0 {
		steps = 7
	}
	for i := 0; i < steps; i++ {
		switch vPick(5) {
		case 0: // start
			rto := float64(1000 + 1000*vPick(2))
			ok := t.start(rto)
			vassert(ok == (!started && !closed), "start succeeds iff the timer is stopped and not closed")
			if ok {
				started, n, armed = true, 0, true
				liveInflight = -1
				obs.lastN = 0
				vassert(vTimerArmedNative(t.timer), "start arms the timer")
			}
		case 1: // stop
			t.stop()
			if started {
				started, armed = false, false
				liveInflight = -1
			}
			vassert(!t.isRunning(), "stop leaves the timer not running")
		case 2: // the runtime timer expires (callback becomes in-flight)
			if t.timer.Stop() {
				vassert(armed, "runtime timer armed only when the model says so")
				inflight++
				liveInflight = inflight - 1
				armed = false
			} else {
				vassert(!armed, "model says armed but the runtime timer is not")
			}
		case 3: // an in-flight callback runs
			if inflight > 0 {
				live := started && liveInflight == 0
				inflight--
				if liveInflight >= 0 {
					liveInflight--
				}
				t.timeout()
				if live {
					n++
					if maxRetrans == 0 || n <= maxRetrans {
						expTimeouts++
						armed = true
						vassert(t.isRunning(), "timer keeps running after a retransmission timeout")
					} else {
						expFailures++
						started = false
						vassert(!t.isRunning(), "timer stops after reporting failure")
					}
				}
			}
		case 4: // close
			t.close()
			closed, started, armed = true, false, false
			liveInflight = -1
			vassert(!t.start(1000), "start after close is refused")
		}
		vassert(obs.timeouts == expTimeouts, "number of retransmission callbacks equals model")
		vassert(obs.failures == expFailures, "number of failure callbacks equals model")
		vassert(obs.inOrderOK, "expiry counts reported to the observer are consecutive from 1")
		if maxRetrans == 0 {
			vassert(obs.failures == 0, "a timer without retry limit never reports failure")
		}
		vassert(t.isRunning() == started, "running state equals model")
		vassert(!obs.heldInCb, "observer callbacks run without the timer's mutex held (they take the association lock)")
	}
	vobserve("timeouts", uint64(obs.timeouts))
	vobserve("failures", uint64(obs.failures))
	vcover("end")
}

// C19.L3b: the duration armed at each expiry is the doubled RTO in milliseconds.
func vh_C19_L3_armed_duration() {
	obs := &vRtxObserver{inOrderOK: true}
	rtoMaxMs := []int{2000, 3000, 4000, 1000, 500}[vPick(5)] // any configured maximum, also one at or below the protocol minimum
	t := newRTXTimer(1, obs, 0, float64(rtoMaxMs))
	rtoMs := 1000 + vPick(3)*500
	vassert(t.start(float64(rtoMs)), "start") // the initial RTO may lie above a small configured maximum: the cap still holds
	want := rtoMs
	for i := 0; i < 4; i++ {
		if want > rtoMaxMs {
			want = rtoMaxMs
		}
		vassert(t.calculateNextTimeout() == time.Duration(want)*time.Millisecond, "armed duration = min(RTO*2^n, RTO.max) ms")
		vassert(t.timer.Stop(), "timer armed")
		t.timeout()
		want *= 2
	}
	vassert(obs.timeouts == 4 && obs.failures == 0, "T3-style timer retransmits for as long as it lives")
	vcover("end")
}

// C19.L3c: a timer that expired k times, was stopped and is started again waits one RTO
// again (not RTO*2^k). The armed duration is a ghost value in the engine; in a native
// violation replay it is measured on the wall clock (vTimerWait).
func vh_C19_L3_restart_resets_backoff() {
	obs := &vRtxObserver{inOrderOK: true}
	t := newRTXTimer(2, obs, 0, 100000)
	const rto = 100 // ms
	vassert(t.start(rto), "start")
	k := 1 + vPick(3)
	expect := time.Duration(rto) * time.Millisecond
	for i := 0; i < k; i++ {
		d := vTimerWait(t, expect)
		vassert(d >= expect/2 && d < 2*expect, "each expiry waits the doubled timeout")
		expect *= 2
	}
	t.stop()
	vassert(t.start(rto), "restart")
	d := vTimerWait(t, time.Duration(rto)*time.Millisecond)
	vassert(d < 2*time.Duration(rto)*time.Millisecond, "after a restart the first expiry waits one RTO again")
	vassert(obs.timeouts == k+1 && obs.failures == 0, "every expiry reached the observer")
	t.close()
	vcover("end")
}

// ---- C19.L6: the delayed-ack timer under every order of start/stop/expire/deliver/close:
// a started timer that is left alone calls onAckTimeout exactly once, when the callback of
// its current arming runs; a stopped, re-armed or closed one never delivers a stale
// callback; the observer runs without the timer's mutex held.

type vAckObserver struct {
	t        *ackTimer
	timeouts int
	heldInCb bool
}

func (o *vAckObserver) onAckTimeout() {
	if o.t != nil && vMutexHeldNative(&o.t.mutex) {
		o.heldInCb = true
	}
	o.timeouts++
}

func vh_C19_L6_ack_timer_interleavings() {
	obs := &vAckObserver{}
	t := newAckTimer(obs)
	obs.t = t
	started, closed, armed := false, false, false
	inflight := 0      // expired callbacks that have not run yet
	liveInflight := -1 // position of the one that belongs to the current arming, -1 if none
	exp := 0
	steps := 6
	if vtier() > 0 {
		steps = 8
	}
	for i := 0; i < steps; i++ {
		switch vPick(5) {
		case 0:
			ok := t.start()
			vassert(ok == (!started && !closed), "start succeeds iff the timer is stopped and not closed")
			if ok {
				started, armed = true, true
				liveInflight = -1
				vassert(vTimerArmedNative(t.timer), "start arms the timer")
			}
		case 1:
			t.stop()
			if started {
				started, armed = false, false
				liveInflight = -1
			}
		case 2: // the runtime timer expires
			if t.timer.Stop() {
				vassert(armed, "runtime timer armed only when the model says so")
				inflight++
				liveInflight = inflight - 1
				armed = false
			} else {
				vassert(!armed, "model says armed but the runtime timer is not")
			}
		case 3: // an expired callback runs
			if inflight > 0 {
				live := started && liveInflight == 0
				inflight--
				if liveInflight >= 0 {
					liveInflight--
				}
				t.timeout()
				if live {
					exp++
					started = false
				}
			}
		case 4:
			t.close()
			closed, started, armed = true, false, false
			liveInflight = -1
			vassert(!t.start(), "start after close is refused")
		}
		vassert(obs.timeouts == exp, "onAckTimeout is called exactly for the expiry of the current arming (never lost, never stale)")
		vassert(t.isRunning() == started, "running state equals model")
		vassert(!obs.heldInCb, "the observer runs without the timer's mutex held")
	}
	vobserve("timeouts", uint64(obs.timeouts))
	vcover("end")
}

// ---- C19.L7: the on-demand heartbeat. One side asks for a heartbeat; the request goes on
// the wire, the peer answers it echoing the information, and the answer yields a round-trip
// sample equal to the time since the request was built.
func vh_C19_L7_active_heartbeat_roundtrip() {
	a, b := vPair(vAssocOpts{pickTSN: true})
	// the answering side may already be shutting down (it still owns the association)
	b.setState([]uint32{established, shutdownPending, shutdownSent, shutdownReceived, shutdownAckSent}[vPick(5)])
	if vPick(2) == 1 {
		// the asking side has data outstanding whose packet was lost (this is when the probe
		// matters most: retransmitted data yields no samples of its own)
		s, err := a.OpenStream(1, PayloadTypeWebRTCBinary)
		vassert(err == nil, "open stream")
		_, werr := s.WriteSCTP(nondetBytes(2), PayloadTypeWebRTCBinary)
		vassert(werr == nil, "write accepted")
		vassert(len(vWriterWake(a)) == 1 && a.inflightQueue.size() == 1, "data in flight, its packet lost")
	}
	a.ActiveHeartbeat()
	var info []byte
	nHB := 0
	for _, raw := range vWriterWake(a) {
		p := vDecode(raw)
		vassert(p != nil, "request decodes")
		for _, c := range p.chunks {
			if hb, ok := c.(*chunkHeartbeat); ok {
				nHB++
				vassert(len(hb.params) == 1, "one information parameter")
				if hi, ok := hb.params[0].(*paramHeartbeatInfo); ok {
					info = hi.heartbeatInformation
				}
			}
		}
		vInbound(b, raw)
	}
	vassert(nHB == 1 && len(info) == 8, "the heartbeat request goes on the wire with its timestamp")
	nAck := 0
	for _, raw := range vWriterWake(b) {
		p := vDecode(raw)
		vassert(p != nil, "answer decodes")
		for _, c := range p.chunks {
			if ack, ok := c.(*chunkHeartbeatAck); ok {
				nAck++
				vassert(len(ack.params) == 1, "the answer carries the information")
				if hi, ok := ack.params[0].(*paramHeartbeatInfo); ok {
					vassert(vBytesEq(hi.heartbeatInformation, info), "the information is echoed unchanged")
				}
			}
		}
		vInbound(a, raw)
	}
	vassert(nAck == 1, "the peer answers the heartbeat")
	vassert(a.SRTT() > 0, "the answer yields a round-trip sample")
	vcover("end")
}

// C19.L7b: the sample taken from a heartbeat answer is the elapsed time, in milliseconds
// with its fraction, for every age of the timestamp up to 2 ms (32 ns steps).
func vh_C19_L7_heartbeat_sample_is_elapsed_time() {
	vStub("fineclock")
	a, _ := vNewAssoc()
	d := uint32(nondetU16()) << 5 // age of the timestamp in ns: 0..2.1 ms in steps of 32 ns
	sent := vTimeAgo(time.Duration(d))
	buf := make([]byte, 8)
	binary.BigEndian.PutUint64(buf, uint64(sent.UnixNano()))
	ack := &chunkHeartbeatAck{params: []param{&paramHeartbeatInfo{heartbeatInformation: buf}}}
	vassert(vDeliver(a, ack) == nil, "HEARTBEAT-ACK is never fatal")
	ms := float64(d) / 1e6
	got := a.SRTT()
	vassert(got >= ms && got <= ms+5, "the first sample becomes SRTT: the elapsed time in milliseconds, fraction included")
	vcover("end")
}

// C19.L3c: data is retransmitted for as long as the association lives: T3 has no retry
// limit and keeps running over ten consecutive expiries (same obligation as C02.L5).
func vh_C19_L3_data_retransmitted_forever() { vh_C02_L5_t3_never_gives_up() }

// C19.L3d: T3 keeps running while data is outstanding, whichever chunk carried the ack (= C02.L7).
func vh_C19_L3_t3_runs_while_data_in_flight() { vh_C02_L7_t3_runs_while_data_in_flight() }

// C19.L3e: handshake retries stay bounded-and-alive when stale handshake chunks arrive (= C04.L2b).
func vh_C19_L3_stale_cookie_echo_keeps_retries() { vh_C04_L2_stale_cookie_echo_keeps_retries() }

// C19.L3f: T3 puts the earliest outstanding chunk on the wire again whatever the peer's
// window (zero, or open but smaller than the chunk) (= C06.L2).
func vh_C19_L3_t3_retransmits_into_any_window() { vh_C06_L2_abandoned_never_resent() }

// C19.L5c: a DATA chunk that has to be dropped because the receive buffer is full is still
// acknowledged: the SACK (carrying the zero window) goes out at once or within the delayed
// ack time, never not at all (the sender's window probes depend on it).
func vh_C19_L5_dropped_data_is_still_acked() {
	a, _ := vNewAssocOpts(vAssocOpts{recvBuf: 4})
	cum := a.peerLastTSN()
	vassert(vDeliver(a, vDataChunk(a, cum+1, 4, true, 4)) == nil, "DATA ok") // fills the buffer
	_ = vWriterWake(a)
	vFireAck(a)
	_ = vWriterWake(a)
	vassert(a.getMyReceiverWindowCredit() == 0, "the window is closed")
	a.lock.Lock()
	a.ackState = ackStateIdle
	a.lock.Unlock()
	probe := vDataChunk(a, cum+2, 5, true, 1) // the sender's window probe
	probe.immediateSack = nondetBool()
	vassert(vDeliver(a, probe) == nil, "DATA ok")
	s5 := a.streams[5]
	vassert(s5 == nil || s5.getNumBytesInReassemblyQueue() == 0, "the probe is dropped (no room)")
	vassert(a.ackState == ackStateImmediate || (a.ackState == ackStateDelay && a.ackTimer.isRunning()), "but it is acknowledged: a SACK is due at once or when the ack timer expires")
	vFireAck(a)
	nSack := 0
	for _, raw := range vWriterWake(a) {
		if p := vDecode(raw); p != nil {
			for _, c := range p.chunks {
				if sk, ok := c.(*chunkSelectiveAck); ok {
					nSack++
					vassert(sk.cumulativeTSNAck == cum+1 && sk.advertisedReceiverWindowCredit == 0, "the SACK tells the sender where the receiver stands and that the window is closed")
				}
			}
		}
	}
	vassert(nSack >= 1, "the SACK goes out")
	vcover("end")
}

// C19.L7c: a heartbeat is answered also when it shares its packet with other chunks (in front
// of a SACK or a COOKIE ACK, as other stacks bundle it).
func vh_C19_L7_bundled_heartbeat_is_answered() {
	_, b := vPair(vAssocOpts{pickTSN: true})
	info := nondetBytes(8)
	hb := &chunkHeartbeat{chunkHeader: chunkHeader{typ: ctHeartbeat}, params: []param{&paramHeartbeatInfo{heartbeatInformation: info}}}
	var follower chunk
	if vPick(2) == 1 {
		follower = &chunkSelectiveAck{cumulativeTSNAck: b.cumulativeTSNAckPoint, advertisedReceiverWindowCredit: 1 << 16}
	} else {
		follower = &chunkCookieAck{}
	}
	raw, err := (&packet{sourcePort: 5000, destinationPort: 5001, verificationTag: b.myVerificationTag, chunks: []chunk{hb, follower}}).marshal(true)
	vassert(err == nil, "bundle marshals")
	vInbound(b, raw)
	nAck := 0
	for _, out := range vWriterWake(b) {
		if p := vDecode(out); p != nil {
			for _, c := range p.chunks {
				if ack, ok := c.(*chunkHeartbeatAck); ok && len(ack.params) == 1 {
					if hi, ok := ack.params[0].(*paramHeartbeatInfo); ok && vBytesEq(hi.heartbeatInformation, info) {
						nAck++
					}
				}
			}
		}
	}
	vassert(nAck == 1, "the bundled heartbeat is answered, echoing its information")
	vcover("end")
}

// C19.L3g: the back-off of the shutdown timer survives its own retransmissions. In
// SHUTDOWN-SENT (SHUTDOWN is repeated) and in SHUTDOWN-ACK-SENT (SHUTDOWN ACK is repeated)
// T2 expires three times in a row, the writer sending the retransmission each time: the
// chunk goes out once per expiry and the time armed for the next expiry doubles each time
// (RTO, 2 RTO, 4 RTO): putting the retransmission on the wire does not restart the series.
func vh_C19_L3_shutdown_backoff_survives_the_retransmission() {
	a, _ := vNewAssoc()
	ackSent := vPick(2) == 1
	if ackSent {
		a.setState(shutdownAckSent)
	} else {
		a.setState(shutdownSent)
	}
	rto := a.rtoMgr.getRTO()
	vassert(a.t2Shutdown.start(rto), "T2 running")
	want := time.Duration(rto) * time.Millisecond
	for i := 0; i < 3; i++ {
		vassert(a.t2Shutdown.isRunning(), "T2 keeps running")
		vassert(a.t2Shutdown.calculateNextTimeout() == want, "the time armed doubles with every expiry in a row")
		vassert(vFireRtx(a, a.t2Shutdown), "T2 expires")
		n := 0
		for _, raw := range vWriterWake(a) {
			for _, c := range vDecode(raw).chunks {
				switch c.(type) {
				case *chunkShutdown:
					if !ackSent {
						n++
					}
				case *chunkShutdownAck:
					if ackSent {
						n++
					}
				}
			}
		}
		vassert(n == 1, "the chunk is repeated once per expiry")
		want *= 2
	}
	vcover("end")
}

// C19.L5d: data is acknowledged in every state in which it is accepted. The association is
// established, or shutting down with data of its own still unacknowledged (SHUTDOWN-PENDING),
// or waiting for the peer's answer (SHUTDOWN-SENT); a DATA chunk arrives in order or above a
// hole: a SACK for it goes on the wire at once (hole) or at the latest when the ack timer
// expires (in order) - never not at all.
func vh_C19_L5_data_is_acknowledged_in_every_state() {
	f := vInFlight(1, false) // one chunk of our own outstanding
	a := f.a
	a.setState([]uint32{established, shutdownPending, shutdownSent}[vPick(3)])
	_ = vWriterWake(a)
	cum := a.peerLastTSN()
	gap := vPick(2) == 1
	off := uint32(1)
	if gap {
		off = 2
	}
	vassert(vDeliver(a, vDataChunk(a, cum+off, 4, true, 1)) == nil, "DATA ok")
	count := func() int {
		n := 0
		for _, raw := range vWriterWake(a) {
			for _, c := range vDecode(raw).chunks {
				if sack, ok := c.(*chunkSelectiveAck); ok {
					n++
					vassert(sack.cumulativeTSNAck == a.peerLastTSN(), "the SACK carries the cumulative point")
				}
			}
		}
		return n
	}
	n := count()
	if gap || a.getState() == shutdownSent {
		vassert(n >= 1, "data above a hole (and any data while waiting for the peer's SHUTDOWN ACK) is acknowledged at once")
	}
	if n == 0 {
		vFireAck(a)
		vassert(count() >= 1, "in-order data is acknowledged at the latest when the ack timer expires")
	}
	vcover("end")
}
