//go:build verif

package sctp

// Receive-path obligations at association level (serve C01, C05, C11, C17, C19).

func vDataChunk(a *Association, tsn uint32, si uint16, unordered bool, n int) *chunkPayloadData {
	c := &chunkPayloadData{
		tsn: tsn, streamIdentifier: si, unordered: unordered, beginningFragment: true, endingFragment: true,
		payloadType: PayloadTypeWebRTCBinary, userData: nondetBytes(n), iData: a.useInterleaving,
	}
	return c
}

func vInWindow(a *Association, cum, t uint32) bool {
	off := t - cum
	return off >= 1 && off <= a.payloadQueue.maxTSNOffset
}

// one inbound packet carrying a single chunk, through the real dispatch path
func vDeliver(a *Association, c chunk) error {
	vSideOf(a)
	vNoteDelivered(a, []chunk{c})
	a.handleChunksStart()
	err := a.handleChunk(&packet{verificationTag: a.myVerificationTag, sourcePort: a.destinationPort, destinationPort: a.sourcePort}, c)
	a.handleChunksEnd()
	return err
}

// C01.L4 / C05.L6: duplicate suppression by TSN and SACK truth. Two unordered
// single-chunk messages with arbitrary TSNs (possibly equal, possibly outside the
// window) on an association with an arbitrary cumulative TSN.
func vh_C01_L4_duplicate_suppression() {
	a, _ := vNewAssocOpts(vAssocOpts{interleaving: vPick(2) == 1})
	cum := a.peerLastTSN()
	t1, t2 := nondetU32(), nondetU32()
	vassume(t1-cum != 1<<31 && t2-cum != 1<<31)
	c1 := vDataChunk(a, t1, 4, true, 1)
	c2 := vDataChunk(a, t2, 4, true, 1)
	if a.useInterleaving {
		c1.messageIdentifier, c2.messageIdentifier = 10, 11
	}
	vassert(vDeliver(a, c1) == nil, "DATA is never fatal")
	cumMid := a.peerLastTSN() // the window moves with the cumulative point
	vassert(vDeliver(a, c2) == nil, "DATA is never fatal")
	ok1 := vInWindow(a, cum, t1)
	ok2 := vInWindow(a, cumMid, t2) && t2 != t1
	want := 0
	if ok1 {
		want++
	}
	if ok2 {
		want++
	}
	s := a.streams[4]
	if want == 0 {
		vassert(s == nil || s.getNumBytesInReassemblyQueue() == 0, "nothing outside the window or at/below the cumulative TSN is stored")
	} else {
		vassert(s != nil, "accepted data creates the stream")
		if s != nil {
			vassert(s.getNumBytesInReassemblyQueue() == want, "each distinct in-window TSN is stored exactly once")
			buf := make([]byte, 4)
			for i := 0; i < want; i++ {
				n, _, err := s.reassemblyQueue.read(buf)
				vassert(err == nil && n == 1, "each accepted message is readable once")
			}
			_, _, err := s.reassemblyQueue.read(buf)
			vassert(err != nil, "a repeated TSN is not delivered twice")
		}
	}
	// SACK truth: the cumulative point never moved backwards and covers only received TSNs;
	// every accepted TSN is at or below it or still tracked as received
	newCum := a.peerLastTSN()
	adv := newCum - cum
	vassert(adv <= 2, "cumulative TSN advanced by at most the number of chunks received")
	if adv >= 1 {
		vassert((ok1 && t1 == cum+1) || (ok2 && t2 == cum+1), "cumulative TSN advances only over a received TSN")
	}
	if adv == 2 {
		vassert(ok1 && ok2 && ((t1 == cum+1 && t2 == cum+2) || (t2 == cum+1 && t1 == cum+2)), "cumulative TSN covers two TSNs only if both were received")
	}
	if ok1 {
		vassert(t1-cum <= adv || a.payloadQueue.hasChunk(t1), "accepted TSN is reported: cumulatively acked or tracked for the gap report")
	}
	if ok2 {
		vassert(t2-cum <= adv || a.payloadQueue.hasChunk(t2), "accepted TSN is reported: cumulatively acked or tracked for the gap report")
	}
	// and conversely: a TSN is tracked as received (it will be named in a gap block, and be
	// walked over by the cumulative point later) only if its chunk was accepted and stored
	if a.payloadQueue.hasChunk(t1) {
		vassert(ok1 || (ok2 && t1 == t2), "a chunk that was dropped (outside the window) is never marked as received")
	}
	if a.payloadQueue.hasChunk(t2) {
		vassert(ok2 || (ok1 && t1 == t2), "a chunk that was dropped (outside the window) is never marked as received")
	}
	// (gap-block extraction from the bitmap is decided separately by vh_C05_bmc_gaps)
	vobserve("want", uint64(want))
	vobserve("adv", uint64(adv))
	vcover("end")
}

// C19.L5: acknowledgement policy for one inbound DATA chunk.
func vh_C19_L5_ack_policy() {
	a, _ := vNewAssoc()
	cum := a.peerLastTSN()
	// optionally one TSN already held above the cumulative point (a gap exists)
	gapBefore := vPick(2) == 1
	if gapBefore {
		held := cum + 3
		vassert(vDeliver(a, vDataChunk(a, held, 4, true, 1)) == nil, "DATA is never fatal")
		a.ackState = ackStateIdle // the SACK for it has gone out
		a.ackTimer.stop()
	}
	pending := vPick(3) // no ack pending, a delayed one, or one that is already due (the writer has not run yet)
	pendingDelayed := pending == 1
	if pendingDelayed {
		a.ackState = ackStateDelay
		a.ackTimer.start()
	}
	if pending == 2 {
		a.ackState = ackStateImmediate
	}
	t := nondetU32()
	vassume(t-cum != 1<<31)
	c := vDataChunk(a, t, 4, true, 1)
	c.immediateSack = nondetBool()
	// a duplicate: at or (serially, unambiguously) below the cumulative TSN, or already held
	dup := cum-t < 1<<30 || (gapBefore && t == cum+3)
	inOrder := t == cum+1
	vassert(vDeliver(a, c) == nil, "DATA is never fatal")
	gapAfter := a.payloadQueue.size() > 0
	if c.immediateSack || gapAfter || (vInWindow(a, cum, t) && !inOrder && !dup) || pendingDelayed {
		vassert(a.ackState == ackStateImmediate, "gap, I-bit or an already pending delayed ack: acknowledge at once")
	}
	if pending == 2 {
		vassert(a.ackState == ackStateImmediate, "an acknowledgement that is already due is never put off again by further data")
	}
	if dup {
		vassert(a.ackState == ackStateImmediate, "duplicate TSN is acknowledged at once")
		vassert(len(a.payloadQueue.dupTSN) >= 1, "duplicate TSN is recorded for the next SACK")
	}
	if a.ackState == ackStateDelay {
		vassert(vTimerArmedNative(a.ackTimer.timer), "a delayed ack always has the ack timer running")
		vassert(a.ackTimer.isRunning(), "ack timer state is started")
	}
	if inOrder && !c.immediateSack && !gapBefore && pending == 0 {
		vassert(a.ackState == ackStateDelay, "first in-order chunk uses the delayed ack")
	}
	// the delayed ack never waits longer than 200 ms: expiry turns it into an immediate ack
	if a.ackState == ackStateDelay {
		vassert(a.ackTimer.timer.Stop(), "ack timer armed")
		a.ackTimer.timeout()
		vassert(a.ackState == ackStateImmediate, "ack timer expiry makes the ack immediate")
	}
	vobserve("state", uint64(a.ackState))
	vcover("end")
}

// C11.L2/L3: advertised credit and admission with a full buffer.
func vh_C11_L2_credit_and_full_buffer() {
	a, _ := vNewAssocOpts(vAssocOpts{recvBuf: 4})
	cum := a.peerLastTSN()
	vassert(a.getMyReceiverWindowCredit() == 4, "empty association advertises the whole buffer")
	// fill the buffer with one 4-byte unordered fragment that stays incomplete
	first := vDataChunk(a, cum+5, 4, true, 4)
	first.endingFragment = false
	vassert(vDeliver(a, first) == nil, "DATA is never fatal")
	vassert(a.getMyReceiverWindowCredit() == 0, "credit = buffer - bytes held")
	sack := a.createSelectiveAckChunk()
	vassert(sack.advertisedReceiverWindowCredit == 0, "SACK advertises the credit")
	// now an arbitrary further chunk arrives while the window is zero
	t := nondetU32()
	vassume(t-cum != 1<<31 && t != cum+5)
	// ... on a new stream or on the stream that already holds data, with any fragment flags
	// (a whole message, a first, middle or last fragment), ordered or unordered
	sid := []uint16{6, 4}[vPick(2)]
	c := vDataChunk(a, t, sid, nondetBool(), 1)
	c.beginningFragment, c.endingFragment = nondetBool(), nondetBool()
	heldBefore := a.streams[4].getNumBytesInReassemblyQueue()
	vassert(vDeliver(a, c) == nil, "DATA is never fatal")
	held := a.streams[4].getNumBytesInReassemblyQueue()
	if s6 := a.streams[6]; s6 != nil {
		held += s6.getNumBytesInReassemblyQueue()
	}
	stored := held > heldBefore
	fillsGap := vInWindow(a, cum, t) && t-cum < 5
	vassert(stored == fillsGap, "with a zero window only chunks below the highest TSN received are stored")
	if stored {
		vassert(sna32LTE(t, a.peerLastTSN()) || a.payloadQueue.hasChunk(t), "a chunk that was stored is also recorded as received: the next SACK covers it cumulatively or names it in a gap block")
	}
	vassert(a.willSendAbort == false, "a full buffer is not a protocol violation")
	vobserve("stored", vb2u(stored))
	vcover("end")
}

// C17.L2: a payload chunk of the wrong kind is answered with a protocol-violation ABORT.
func vh_C17_L2_wrong_kind_abort() {
	il := vPick(2) == 1
	a, _ := vNewAssocOpts(vAssocOpts{interleaving: il})
	cum := a.peerLastTSN()
	// any TSN: fresh, duplicate, held out of order or outside the window
	if vPick(2) == 1 {
		vassert(vDeliver(a, vDataChunk(a, cum+3, 5, true, 1)) == nil, "a chunk held out of order")
		a.willSendAbort = false
	}
	c := vDataChunk(a, nondetU32(), 4, nondetBool(), 1)
	c.iData = !il // the wrong kind
	vassert(vDeliver(a, c) == nil, "wrong-kind DATA is not fatal to the read loop")
	vassert(a.willSendAbort, "wrong payload chunk kind requests an ABORT")
	_, isPV := a.willSendAbortCause.(*errorCauseProtocolViolation)
	vassert(isPV, "the ABORT carries a protocol-violation cause")
	vassert(a.peerLastTSN() == cum, "the wrong-kind chunk is not accepted")
	vassert(a.streams[4] == nil, "no stream is created for the wrong-kind chunk")
	// the matching kind is accepted
	b, _ := vNewAssocOpts(vAssocOpts{interleaving: il})
	cb := vDataChunk(b, b.peerLastTSN()+1, 4, false, 1)
	vassert(vDeliver(b, cb) == nil && !b.willSendAbort, "the negotiated kind is accepted")
	vcover("end")
}

// C19.L5b: two DATA chunks bundled in one packet: if either of them calls for an
// immediate acknowledgement (gap, duplicate, I-bit) the SACK goes out at once even though
// the other one alone would have been acknowledged with delay.
func vh_C19_L5_ack_policy_bundled() {
	a, _ := vNewAssoc()
	cum := a.peerLastTSN()
	c1 := vDataChunk(a, cum+1, 4, true, 1) // in sequence: alone it would use the delayed ack
	var c2 *chunkPayloadData
	kind := vPick(3)
	switch kind {
	case 0:
		c2 = vDataChunk(a, cum+3, 4, true, 1) // opens a gap
	case 1:
		c2 = vDataChunk(a, cum+1, 4, true, 1) // duplicate of the first
	case 2:
		c2 = vDataChunk(a, cum+2, 4, true, 1)
		c2.immediateSack = true
	}
	first := vPick(2) == 0
	pkt := &packet{verificationTag: a.myVerificationTag, sourcePort: a.destinationPort, destinationPort: a.sourcePort}
	a.handleChunksStart()
	if first {
		vassert(a.handleChunk(pkt, c1) == nil && a.handleChunk(pkt, c2) == nil, "DATA is never fatal")
	} else if kind != 1 {
		vassert(a.handleChunk(pkt, c2) == nil && a.handleChunk(pkt, c1) == nil, "DATA is never fatal")
	} else {
		vassert(a.handleChunk(pkt, c1) == nil && a.handleChunk(pkt, c2) == nil, "DATA is never fatal")
	}
	a.handleChunksEnd()
	if kind == 0 && !first {
		// the in-sequence chunk arrived second and the gap chunk is still ahead: a gap remains
		vassert(a.payloadQueue.size() > 0, "gap remains")
	}
	vassert(a.ackState == ackStateImmediate, "a gap, duplicate or I-bit anywhere in the packet makes the acknowledgement immediate")
	pkts := vWriterWake(a)
	sacks := 0
	for _, raw := range pkts {
		p := vDecode(raw)
		for _, c := range p.chunks {
			if _, ok := c.(*chunkSelectiveAck); ok {
				sacks++
			}
		}
	}
	vassert(sacks == 1, "the SACK is emitted by the next writer pass")
	vcover("end")
}

// createSelectiveAckChunkNoGaps builds the SACK fields other than the gap blocks through
// the same accessors createSelectiveAckChunk uses (the bitmap scan is decided in C05).
func (a *Association) createSelectiveAckChunkNoGaps() *chunkSelectiveAck {
	return &chunkSelectiveAck{cumulativeTSNAck: a.peerLastTSN(), advertisedReceiverWindowCredit: a.getMyReceiverWindowCredit()}
}
