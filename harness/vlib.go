//go:build verif

package sctp

// Harness API. The symbolic engine (/verif/engine) intercepts these functions by
// name; the bodies below are the native meaning used when a solver model is
// replayed against the real build.

import (
	"encoding/binary"
	"fmt"
	"time"
)

type vVecEntry struct {
	K string `json:"k"`
	V uint64 `json:"v"`
}

type vObsVal struct {
	Tag string `json:"tag"`
	V   uint64 `json:"v"`
}

type vAssumeFail struct{}
type vAssertFail struct{ msg string }
type vExhausted struct{}
type vBlocked struct{}

var (
	vVec    []vVecEntry
	vPos    int
	vObs    []vObsVal
	vCovers []string
	vTier   int
)

func vnext(kind string) uint64 {
	if vPos >= len(vVec) {
		panic(vExhausted{})
	}
	e := vVec[vPos]
	vPos++
	if e.K != kind {
		panic(fmt.Sprintf("replay vector mismatch at %d: want %s have %s", vPos-1, kind, e.K))
	}
	return e.V
}

func nondetU8() uint8   { return uint8(vnext("u8")) }
func nondetU16() uint16 { return uint16(vnext("u16")) }
func nondetU32() uint32 { return uint32(vnext("u32")) }
func nondetU64() uint64 { return vnext("u64") }
func nondetInt() int    { return int(vnext("u64")) }
func nondetBool() bool  { return vnext("bool") != 0 }
func nondetF64() float64 {
	return float64frombits(vnext("u64"))
}

func nondetBytes(n int) []byte {
	b := make([]byte, n)
	for i := range b {
		b[i] = nondetU8()
	}
	return b
}

// vPick makes an n-way choice; the engine explores every alternative.
func vPick(n int) int { return int(vnext("pick")) }

func vassume(c bool) {
	if !c {
		panic(vAssumeFail{})
	}
}

func vassert(c bool, msg string) {
	if !c {
		panic(vAssertFail{msg})
	}
}

func vcover(tag string)             { vCovers = append(vCovers, tag) }
func vobserve(tag string, v uint64) { vObs = append(vObs, vObsVal{tag, v}) }
func vtier() int                    { return vTier }
func vbound(n int)                  {}
func vblocked()                     { panic(vBlocked{}) }

// vTimeAgo returns an instant d before now.
func vTimeAgo(d time.Duration) time.Time { return time.Now().Add(-d) }

func vb2u(b bool) uint64 {
	if b {
		return 1
	}
	return 0
}

// vTimerArmedNative: natively there is no way to query a runtime timer without
// disturbing it, so the native meaning is "true"; the engine answers from its ghost.
func vTimerArmedNative(t *time.Timer) bool { return true }

// vFixChecksum writes the correct packet checksum into raw (no-op for runts).
func vFixChecksum(raw []byte) {
	if len(raw) >= packetHeaderSize {
		binary.LittleEndian.PutUint32(raw[8:], generatePacketChecksum(raw))
	}
}

// vStub asks the engine to summarise a pure callee that is not the subject of the
// harness (listed in the evidence); natively the real code runs.
func vStub(name string) {}

// Natively a mutex cannot be queried; TryLock answers "held" without blocking.
func vMutexHeldNative(m interface {
	TryLock() bool
	Unlock()
}) bool {
	if vRaceMode {
		return false // touchers take the locks at any time (vGuardedBy); not the subject of these replays
	}
	if m.TryLock() {
		m.Unlock()
		return false
	}
	return true
}

func vRWMutexHeldNative(m interface {
	TryLock() bool
	Unlock()
}) bool {
	return vMutexHeldNative(m)
}

// vGo stands in for the go statements that start the association's background loops
// (see patchedSources in /verif/engine/main.go): harness runs are sequential, the
// loops' bodies are invoked explicitly by the harnesses.
var vGoCalls int

func vGo(f func()) {
	vGoCalls++
	if vGoLive {
		vQueueGo(f)
	}
}

// vGoLive (set by harnesses that drive the public Client/Server entry points): the loops
// are real goroutines natively; in the engine they run whenever the harness goroutine
// cannot proceed, each until it returns or parks (see runQueued in /verif/engine).
var vGoLive bool

func vQueueGo(f func()) { go f() }

// vRealtime is set for native replays of violations only: timer durations are then
// measured on the wall clock. In ordinary native validation runs the expected duration is
// returned (no wall-clock dependence, no flakiness).
var vRealtime bool

// vTimerWait lets the armed timer of t expire and returns how long it was armed for.
// Engine: the ghost duration recorded at Reset. Native: see vRealtime.
func vTimerWait(t *rtxTimer, expect time.Duration) time.Duration {
	if !vRealtime {
		if t.timer.Stop() {
			t.timeout()
		}
		return expect
	}
	t.mutex.Lock()
	before := t.nRtos
	t.mutex.Unlock()
	start := time.Now()
	for time.Since(start) < 20*expect+time.Second {
		time.Sleep(2 * time.Millisecond)
		t.mutex.Lock()
		n := t.nRtos
		t.mutex.Unlock()
		if n != before {
			return time.Since(start)
		}
	}
	return time.Since(start)
}
