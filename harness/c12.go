//go:build verif

package sctp

// C12 — wire codec fidelity.

func vBytesEq(a, b []byte) bool {
	if len(a) != len(b) {
		return false
	}
	eq := true
	for i := range a {
		eq = eq && a[i] == b[i]
	}
	return eq
}

// The SACK decoder allocates its gap/duplicate arrays from the attacker-supplied
// 16-bit counts before it validates them against the chunk length; each count value
// would be a separate path. The counts are bounded here (a SACK with larger counts
// cannot fit the buffers of this bound and is rejected by the size check).
func vBoundSackCounts(raw []byte) {
	for off := packetHeaderSize; off+16 <= len(raw); off += 4 {
		if raw[off] == byte(ctSack) {
			vassume(raw[off+12] == 0 && raw[off+13] < 6 && raw[off+14] == 0 && raw[off+15] < 6)
		}
	}
}

func vCodecLens() []int {
	if vtier() == 0 {
		return []int{16, 18, 20, 24} // 18: a last chunk whose padding is cut short
	}
	return []int{12, 16, 20, 24, 28} // 32 (a 20-byte ABORT / ERROR / RE-CONFIG value) did not finish in 40 min
}

// C12.L3: decoding any accepted packet and re-encoding the result is stable:
// the re-encoded bytes are accepted again, decode to the same number and kinds of
// chunks, and encoding that result once more gives identical bytes.
func vh_C12_L3_reencode_stable() {
	vbound(12)
	lens := vCodecLens()
	n := lens[vPick(len(lens))]
	raw := nondetBytes(n)
	vBoundSackCounts(raw)
	vFixChecksum(raw)
	p := &packet{}
	if p.unmarshal(false, raw) != nil {
		vcover("rejected")
		return
	}
	// an accepted packet is made of whole chunks, padding included (each chunk's own length
	// plus its padding, and nothing cut short at the end)
	total := packetHeaderSize
	for _, c := range p.chunks {
		vl := c.valueLength()
		total += chunkHeaderSize + vl + getPadding(vl)
	}
	vassert(total == n, "accepted packet: the padded chunk lengths add up to the buffer length")
	raw2, err := p.marshal(true)
	if err != nil {
		// The only decoder-accepted chunk the encoder deliberately refuses is a
		// HEARTBEAT-ACK with an empty body (pinned by the repository's own tests:
		// decode lenient, encode strict); the association never builds one.
		emptyHBAck := false
		for _, c := range p.chunks {
			if h, ok := c.(*chunkHeartbeatAck); ok && len(h.params) == 0 {
				emptyHBAck = true
			}
		}
		vassert(emptyHBAck, "an accepted packet can be re-encoded")
		vcover("encoder refuses empty heartbeat-ack")
		return
	}
	vassert(len(raw2)%4 == 0, "encoded packet length is a multiple of 4")
	p2 := &packet{}
	err2 := p2.unmarshal(false, raw2)
	vassert(err2 == nil, "re-encoded packet is accepted again")
	if err2 != nil {
		return
	}
	vassert(len(p2.chunks) == len(p.chunks), "same number of chunks after re-encoding")
	vassert(p2.sourcePort == p.sourcePort && p2.destinationPort == p.destinationPort && p2.verificationTag == p.verificationTag, "common header preserved")
	raw3, err3 := p2.marshal(true)
	vassert(err3 == nil, "second re-encoding succeeds")
	if err3 == nil {
		vassert(vBytesEq(raw2, raw3), "encode(decode(x)) is a fixed point")
	}
	vobserve("nchunks", uint64(len(p.chunks)))
	vobserve("len2", uint64(len(raw2)))
	vcover("accepted")
}

// C12.L2: bundling independence. For an arbitrary accepted packet whose first chunk
// occupies exactly A bytes, the prefix consisting of the header and that chunk alone
// is accepted too and its chunk re-encodes to the same bytes: the meaning of a chunk
// depends only on the bytes inside its own length.
func vh_C12_L2_bundling_independent() {
	vbound(12)
	type shape struct{ a, b int }
	shapes := []shape{{4, 4}, {8, 4}, {12, 8}}
	if vtier() > 0 {
		shapes = append(shapes, shape{8, 8}, shape{16, 4}, shape{20, 4})
	}
	sh := shapes[vPick(len(shapes))]
	raw := nondetBytes(packetHeaderSize + sh.a + sh.b)
	// the first chunk is arbitrary with a length field that pads to exactly a bytes;
	// what follows is a fixed, valid chunk sequence (COOKIE-ACKs): only the first chunk
	// is the subject, so the followers are not explored
	clen := int(raw[packetHeaderSize+2])<<8 | int(raw[packetHeaderSize+3])
	vassume(clen >= chunkHeaderSize && clen <= sh.a && clen > sh.a-4)
	for off := packetHeaderSize + sh.a; off < len(raw); off += 4 {
		raw[off], raw[off+1], raw[off+2], raw[off+3] = byte(ctCookieAck), 0, 0, 4
	}
	vBoundSackCounts(raw)
	vFixChecksum(raw)
	p := &packet{}
	if p.unmarshal(false, raw) != nil {
		vcover("rejected")
		return
	}
	vassert(len(p.chunks) == 1+sh.b/4, "bundle decodes to the first chunk plus the followers")
	vl := p.chunks[0].valueLength()
	vassert(chunkHeaderSize+vl+getPadding(vl) == sh.a, "first chunk occupies its padded length")
	// padding bytes are outside the chunk's own length; the decoder only inspects the
	// padding of the last chunk of a packet, so well-formed (zero) padding is assumed
	for i := chunkHeaderSize + vl; i < sh.a; i++ {
		vassume(raw[packetHeaderSize+i] == 0)
	}
	rawAlone := append([]byte{}, raw[:packetHeaderSize+sh.a]...)
	vFixChecksum(rawAlone)
	alone := &packet{}
	errAlone := alone.unmarshal(false, rawAlone)
	vassert(errAlone == nil, "first chunk alone is accepted when the bundle is")
	if errAlone != nil {
		return
	}
	vassert(len(alone.chunks) == 1, "prefix holds exactly the first chunk")
	m1, e1 := p.chunks[0].marshal()
	m2, e2 := alone.chunks[0].marshal()
	vassert((e1 == nil) == (e2 == nil), "chunk re-encodes the same way bundled and alone (error)")
	if e1 == nil && e2 == nil {
		vassert(vBytesEq(m1, m2), "chunk decodes identically whether or not another chunk follows it")
	}
	vobserve("a", uint64(sh.a))
	vcover("bundle")
}

// ---- C12.L1: round trip of every chunk kind the association builds, through the path
// the association uses (packet.marshal -> bytes -> packet.unmarshal).

func vRoundTrip(c chunk) chunk {
	p := &packet{sourcePort: nondetU16(), destinationPort: nondetU16(), verificationTag: nondetU32(), chunks: []chunk{c}}
	raw, err := p.marshal(true)
	vassert(err == nil, "constructed packet marshals")
	if err != nil {
		return nil
	}
	vassert(len(raw)%4 == 0, "emitted packet length is a multiple of 4")
	// chunk length field covers header + value, padding is zero
	clen := int(raw[packetHeaderSize+2])<<8 | int(raw[packetHeaderSize+3])
	vassert(clen >= chunkHeaderSize && packetHeaderSize+clen <= len(raw) && len(raw)-(packetHeaderSize+clen) < 4, "chunk length field matches the emitted bytes")
	for i := packetHeaderSize + clen; i < len(raw); i++ {
		vassert(raw[i] == 0, "chunk padding is zero")
	}
	q := &packet{}
	err = q.unmarshal(false, raw)
	vassert(err == nil, "emitted packet decodes locally")
	if err != nil {
		return nil
	}
	vassert(q.sourcePort == p.sourcePort && q.destinationPort == p.destinationPort && q.verificationTag == p.verificationTag, "common header round-trips")
	vassert(len(q.chunks) == 1, "one chunk in, one chunk out")
	if len(q.chunks) != 1 {
		return nil
	}
	return q.chunks[0]
}

// C12.L1e: the reserved 16 bits of an I-DATA chunk are sent as zero (RFC 8260), whatever
// the message identifier: an emitted chunk is well-formed for a decoder that checks them.
func vh_C12_L1_idata_reserved_field_is_zero() {
	in := &chunkPayloadData{
		tsn: nondetU32(), streamIdentifier: nondetU16(), messageIdentifier: nondetU32(), fragmentSequenceNumber: nondetU32(),
		payloadType: PayloadTypeWebRTCBinary, userData: nondetBytes(1), beginningFragment: nondetBool(), endingFragment: nondetBool(), iData: true,
	}
	in.streamSequenceNumber = uint16(in.messageIdentifier) // as Stream.packetize and the decoder set it
	raw, err := (&packet{sourcePort: 1, destinationPort: 1, chunks: []chunk{in}}).marshal(true)
	vassert(err == nil && len(raw) >= packetHeaderSize+chunkHeaderSize+16, "I-DATA marshals")
	v := raw[packetHeaderSize+chunkHeaderSize:]
	vassert(v[6] == 0 && v[7] == 0, "the reserved field after the stream identifier is zero on the wire")
	vcover("end")
}

func vh_C12_L1_roundtrip_data() {
	n := vPick(5) // payload length 0..4
	in := &chunkPayloadData{
		unordered: nondetBool(), beginningFragment: nondetBool(), endingFragment: nondetBool(), immediateSack: nondetBool(),
		tsn: nondetU32(), streamIdentifier: nondetU16(), streamSequenceNumber: nondetU16(),
		messageIdentifier: nondetU32(), fragmentSequenceNumber: nondetU32(),
		payloadType: PayloadProtocolIdentifier(nondetU32()), userData: nondetBytes(n),
	}
	in.iData = vPick(2) == 1
	if in.iData {
		// what packetize produces: first fragment carries the PPI and FSN 0
		if in.beginningFragment {
			in.fragmentSequenceNumber = 0
		}
	}
	outc := vRoundTrip(in)
	if outc == nil {
		return
	}
	out, ok := outc.(*chunkPayloadData)
	vassert(ok, "DATA decodes as payload data")
	if !ok {
		return
	}
	vassert(out.iData == in.iData, "DATA/I-DATA kind preserved")
	vassert(out.unordered == in.unordered && out.beginningFragment == in.beginningFragment && out.endingFragment == in.endingFragment && out.immediateSack == in.immediateSack, "flags U/B/E/I preserved")
	vassert(out.tsn == in.tsn && out.streamIdentifier == in.streamIdentifier, "TSN and stream identifier preserved")
	if in.iData {
		vassert(out.messageIdentifier == in.messageIdentifier, "MID preserved")
		if in.beginningFragment {
			vassert(out.payloadType == in.payloadType && out.fragmentSequenceNumber == 0, "first I-DATA fragment carries the PPI")
		} else {
			vassert(out.fragmentSequenceNumber == in.fragmentSequenceNumber, "FSN preserved on later fragments")
		}
	} else {
		vassert(out.streamSequenceNumber == in.streamSequenceNumber && out.payloadType == in.payloadType, "SSN and PPI preserved")
	}
	vassert(vBytesEq(out.userData, in.userData), "user data preserved byte for byte")
	vobserve("len", uint64(len(out.userData)))
	vcover("end")
}

func vh_C12_L1_roundtrip_sack_fwd() {
	switch vPick(3) {
	case 0:
		ng, nd := vPick(3), vPick(3)
		in := &chunkSelectiveAck{cumulativeTSNAck: nondetU32(), advertisedReceiverWindowCredit: nondetU32()}
		for i := 0; i < ng; i++ {
			in.gapAckBlocks = append(in.gapAckBlocks, gapAckBlock{nondetU16(), nondetU16()})
		}
		for i := 0; i < nd; i++ {
			in.duplicateTSN = append(in.duplicateTSN, nondetU32())
		}
		outc := vRoundTrip(in)
		if outc == nil {
			return
		}
		out, ok := outc.(*chunkSelectiveAck)
		vassert(ok, "SACK decodes as SACK")
		if !ok {
			return
		}
		vassert(out.cumulativeTSNAck == in.cumulativeTSNAck && out.advertisedReceiverWindowCredit == in.advertisedReceiverWindowCredit, "SACK cumulative ack and a_rwnd preserved")
		vassert(len(out.gapAckBlocks) == ng && len(out.duplicateTSN) == nd, "SACK block counts preserved")
		for i := 0; i < ng && i < len(out.gapAckBlocks); i++ {
			vassert(out.gapAckBlocks[i] == in.gapAckBlocks[i], "gap block preserved")
		}
		for i := 0; i < nd && i < len(out.duplicateTSN); i++ {
			vassert(out.duplicateTSN[i] == in.duplicateTSN[i], "duplicate TSN preserved")
		}
		vcover("sack")
	case 1:
		ns := vPick(3)
		in := &chunkForwardTSN{newCumulativeTSN: nondetU32()}
		for i := 0; i < ns; i++ {
			in.streams = append(in.streams, chunkForwardTSNStream{nondetU16(), nondetU16()})
		}
		outc := vRoundTrip(in)
		if outc == nil {
			return
		}
		out, ok := outc.(*chunkForwardTSN)
		vassert(ok, "FORWARD-TSN decodes as FORWARD-TSN")
		if !ok {
			return
		}
		vassert(out.newCumulativeTSN == in.newCumulativeTSN && len(out.streams) == ns, "FORWARD-TSN cumulative TSN and stream count preserved")
		for i := 0; i < ns && i < len(out.streams); i++ {
			vassert(out.streams[i] == in.streams[i], "FORWARD-TSN stream entry preserved")
		}
		vcover("fwd")
	case 2:
		in := &chunkShutdown{cumulativeTSNAck: nondetU32()}
		outc := vRoundTrip(in)
		if outc == nil {
			return
		}
		out, ok := outc.(*chunkShutdown)
		vassert(ok && out.cumulativeTSNAck == in.cumulativeTSNAck, "SHUTDOWN cumulative ack preserved")
		vcover("shutdown")
	}
}

func vh_C12_L1_roundtrip_control() {
	switch vPick(7) {
	case 0:
		_, ok := vRoundTrip(&chunkShutdownAck{}).(*chunkShutdownAck)
		vassert(ok, "SHUTDOWN-ACK round-trips")
		vcover("shutdown-ack")
	case 1:
		in := &chunkShutdownComplete{}
		tbit := nondetU8() & 1 // the T bit: the sender had no association and reflected the tag
		in.flags = tbit
		out, ok := vRoundTrip(in).(*chunkShutdownComplete)
		vassert(ok && out.flags == tbit, "SHUTDOWN-COMPLETE round-trips, T bit included")
		vcover("shutdown-complete")
	case 2:
		_, ok := vRoundTrip(&chunkCookieAck{}).(*chunkCookieAck)
		vassert(ok, "COOKIE-ACK round-trips")
		vcover("cookie-ack")
	case 3:
		n := vPick(6)
		in := &chunkCookieEcho{cookie: nondetBytes(n)}
		outc := vRoundTrip(in)
		if outc == nil {
			return
		}
		out, ok := outc.(*chunkCookieEcho)
		vassert(ok && vBytesEq(out.cookie, in.cookie), "COOKIE-ECHO cookie preserved")
		vcover("cookie-echo")
	case 4:
		// HEARTBEAT as sendActiveHeartbeatLocked builds it (8 bytes), and any other information length
		info := nondetBytes([]int{8, 0, 1, 4, 5}[vPick(5)])
		in := &chunkHeartbeat{chunkHeader: chunkHeader{typ: ctHeartbeat}, params: []param{&paramHeartbeatInfo{heartbeatInformation: info}}}
		outc := vRoundTrip(in)
		if outc == nil {
			return
		}
		out, ok := outc.(*chunkHeartbeat)
		vassert(ok, "HEARTBEAT decodes as HEARTBEAT")
		if !ok {
			return
		}
		vassert(len(out.params) == 1, "HEARTBEAT carries its info parameter on the wire")
		if len(out.params) == 1 {
			hi, ok := out.params[0].(*paramHeartbeatInfo)
			vassert(ok && vBytesEq(hi.heartbeatInformation, info), "HEARTBEAT info preserved")
		}
		vcover("heartbeat")
	case 5:
		// HEARTBEAT-ACK as handleHeartbeat builds it
		info := nondetBytes([]int{8, 0, 1, 4, 5}[vPick(5)])
		in := &chunkHeartbeatAck{params: []param{&paramHeartbeatInfo{heartbeatInformation: info}}}
		outc := vRoundTrip(in)
		if outc == nil {
			return
		}
		out, ok := outc.(*chunkHeartbeatAck)
		vassert(ok, "HEARTBEAT-ACK decodes as HEARTBEAT-ACK")
		if !ok {
			return
		}
		vassert(len(out.params) == 1, "HEARTBEAT-ACK carries its info parameter")
		if len(out.params) == 1 {
			hi, ok := out.params[0].(*paramHeartbeatInfo)
			vassert(ok && vBytesEq(hi.heartbeatInformation, info), "HEARTBEAT-ACK info preserved")
		}
		vcover("heartbeat-ack")
	case 6:
		ns := vPick(3)
		in := &chunkIForwardTSN{newCumulativeTSN: nondetU32()}
		vassume(in.newCumulativeTSN != 0 || true)
		sameStream := ns == 2 && vPick(2) == 1 // an ordered and an unordered entry for one stream, as createIForwardTSN builds them
		for i := 0; i < ns; i++ {
			e := chunkIForwardTSNStream{identifier: uint16(i), unordered: nondetBool(), messageIdentifier: nondetU32()}
			if sameStream {
				e.identifier, e.unordered = 7, i == 1
			}
			in.streams = append(in.streams, e)
		}
		outc := vRoundTrip(in)
		if outc == nil {
			return
		}
		out, ok := outc.(*chunkIForwardTSN)
		vassert(ok, "I-FORWARD-TSN decodes as I-FORWARD-TSN")
		if !ok {
			return
		}
		vassert(out.newCumulativeTSN == in.newCumulativeTSN && len(out.streams) == ns, "I-FORWARD-TSN cumulative TSN and stream count preserved")
		for i := 0; i < ns && i < len(out.streams); i++ {
			vassert(out.streams[i] == in.streams[i], "I-FORWARD-TSN entry preserved (distinct streams)")
		}
		vcover("i-fwd")
	}
}

func vh_C12_L1_roundtrip_abort_reconfig() {
	switch vPick(6) {
	case 5:
		// ABORT with two causes, the first of any length (not only multiples of four)
		n := vPick(6)
		reason := nondetBytes(n)
		in := &chunkAbort{errorCauses: []errorCause{
			&errorCauseUserInitiatedAbort{upperLayerAbortReason: reason},
			&errorCauseProtocolViolation{errorCauseHeader: errorCauseHeader{code: protocolViolation}, additionalInformation: nondetBytes(4)},
		}}
		outc := vRoundTrip(in)
		if outc == nil {
			return
		}
		out, ok := outc.(*chunkAbort)
		vassert(ok, "ABORT decodes as ABORT")
		if !ok {
			return
		}
		vassert(len(out.errorCauses) == 2, "both causes survive the wire, whatever the length of the first")
		if len(out.errorCauses) == 2 {
			ua, ok1 := out.errorCauses[0].(*errorCauseUserInitiatedAbort)
			_, ok2 := out.errorCauses[1].(*errorCauseProtocolViolation)
			vassert(ok1 && ok2, "each cause decodes as what it was")
			if ok1 {
				vassert(vBytesEq(ua.upperLayerAbortReason, reason), "the abort reason is preserved")
			}
		}
		vcover("abort-two-causes")
	case 4:
		// RECONFIG with two parameters: a reset request with an odd number of streams (needs
		// padding before parameter B) and a response
		req := &paramOutgoingResetRequest{reconfigRequestSequenceNumber: nondetU32(), reconfigResponseSequenceNumber: nondetU32(), senderLastTSN: nondetU32(), streamIdentifiers: []uint16{nondetU16()}}
		resp := &paramReconfigResponse{reconfigResponseSequenceNumber: nondetU32(), result: reconfigResultSuccessPerformed}
		outc := vRoundTrip(&chunkReconfig{paramA: req, paramB: resp})
		if outc == nil {
			return
		}
		out, ok := outc.(*chunkReconfig)
		vassert(ok, "RECONFIG decodes as RECONFIG")
		if !ok {
			return
		}
		ga, okA := out.paramA.(*paramOutgoingResetRequest)
		gb, okB := out.paramB.(*paramReconfigResponse)
		vassert(okA && okB, "both parameters survive")
		if okA && okB {
			vassert(ga.senderLastTSN == req.senderLastTSN && len(ga.streamIdentifiers) == 1 && ga.streamIdentifiers[0] == req.streamIdentifiers[0], "parameter A preserved")
			vassert(gb.reconfigResponseSequenceNumber == resp.reconfigResponseSequenceNumber && gb.result == resp.result, "parameter B preserved")
		}
		vcover("reconfig-two-params")
	case 0:
		// ABORT with a protocol-violation cause, as the association builds it
		n := vPick(4)
		info := nondetBytes(n)
		in := &chunkAbort{errorCauses: []errorCause{&errorCauseProtocolViolation{errorCauseHeader: errorCauseHeader{code: protocolViolation}, additionalInformation: info}}}
		outc := vRoundTrip(in)
		if outc == nil {
			return
		}
		out, ok := outc.(*chunkAbort)
		vassert(ok, "ABORT decodes as ABORT")
		if !ok {
			return
		}
		vassert(len(out.errorCauses) == 1, "ABORT carries one cause")
		if len(out.errorCauses) == 1 {
			pv, ok := out.errorCauses[0].(*errorCauseProtocolViolation)
			vassert(ok, "cause decodes as protocol violation")
			if ok && n%4 == 0 {
				vassert(vBytesEq(pv.additionalInformation, info), "cause information preserved")
			}
		}
		vcover("abort")
	case 1:
		// RECONFIG outgoing reset request
		ns := vPick(3)
		req := &paramOutgoingResetRequest{reconfigRequestSequenceNumber: nondetU32(), reconfigResponseSequenceNumber: nondetU32(), senderLastTSN: nondetU32()}
		for i := 0; i < ns; i++ {
			req.streamIdentifiers = append(req.streamIdentifiers, nondetU16())
		}
		outc := vRoundTrip(&chunkReconfig{paramA: req})
		if outc == nil {
			return
		}
		out, ok := outc.(*chunkReconfig)
		vassert(ok, "RECONFIG decodes as RECONFIG")
		if !ok {
			return
		}
		got, ok := out.paramA.(*paramOutgoingResetRequest)
		vassert(ok && out.paramB == nil, "RECONFIG carries the reset request as parameter A")
		if ok {
			vassert(got.reconfigRequestSequenceNumber == req.reconfigRequestSequenceNumber && got.reconfigResponseSequenceNumber == req.reconfigResponseSequenceNumber && got.senderLastTSN == req.senderLastTSN, "reset request sequence numbers and last TSN preserved")
			vassert(len(got.streamIdentifiers) == ns, "reset request stream count preserved")
			for i := 0; i < ns && i < len(got.streamIdentifiers); i++ {
				vassert(got.streamIdentifiers[i] == req.streamIdentifiers[i], "reset request stream id preserved")
			}
		}
		vcover("reconfig-req")
	case 2:
		resp := &paramReconfigResponse{reconfigResponseSequenceNumber: nondetU32(), result: reconfigResult(nondetU32())}
		outc := vRoundTrip(&chunkReconfig{paramA: resp})
		if outc == nil {
			return
		}
		out, ok := outc.(*chunkReconfig)
		vassert(ok, "RECONFIG decodes as RECONFIG")
		if !ok {
			return
		}
		got, ok := out.paramA.(*paramReconfigResponse)
		vassert(ok && got.reconfigResponseSequenceNumber == resp.reconfigResponseSequenceNumber && got.result == resp.result, "reconfig response preserved")
		vcover("reconfig-resp")
	case 3:
		// ERROR with unrecognized-chunk cause, as handleChunk builds it
		cerr := &chunkError{errorCauses: []errorCause{&errorCauseUnrecognizedChunkType{unrecognizedChunk: nondetBytes(4)}}}
		outc := vRoundTrip(cerr)
		if outc == nil {
			return
		}
		out, ok := outc.(*chunkError)
		vassert(ok && len(out.errorCauses) == 1, "ERROR carries its cause")
		vcover("error")
	}
}

// C12.L4: parameters this implementation does not know are skipped over exactly: an INIT or
// INIT-ACK carrying a parameter of an unknown type and any length 4..10 (so with 0..3
// bytes of padding) before, between or after the recognised ones decodes, and every
// recognised parameter is found intact behind it.
func vh_C12_L4_init_unknown_parameter_is_skipped() {
	unknownTypes := []uint16{0x000c, 0xc006, 0xc004} // supported address types, adaptation layer indication, set primary address: none implemented here
	ut := unknownTypes[vPick(len(unknownTypes))]
	ul := 4 + vPick(7)
	ub := append([]byte{byte(ut >> 8), byte(ut), 0, byte(ul)}, nondetBytes(ul-4)...)
	unknown := &vRawParam{b: ub}
	ack := vPick(2) == 1
	common := chunkInitCommon{}
	common.initiateTag, common.initialTSN = 1+nondetU32()%0xfffffffe, nondetU32()
	common.numOutboundStreams, common.numInboundStreams = 1+nondetU16()%1000, 1+nondetU16()%1000
	common.advertisedReceiverWindowCredit = nondetU32()
	setSupportedExtensions(&common, vPick(2) == 1)
	known := common.params
	cookie := nondetBytes(5)
	if ack {
		known = append(known, &paramStateCookie{cookie: cookie})
	}
	pos := vPick(len(known) + 1)
	var params []param
	params = append(params, known[:pos]...)
	params = append(params, unknown)
	params = append(params, known[pos:]...)
	common.params = params
	var in chunk
	if ack {
		in = &chunkInitAck{chunkInitCommon: common}
	} else {
		in = &chunkInit{chunkInitCommon: common}
	}
	p := &packet{sourcePort: 5000, destinationPort: 5000, chunks: []chunk{in}}
	raw, err := p.marshal(true)
	vassert(err == nil, "constructed packet marshals")
	q := &packet{}
	err = q.unmarshal(false, raw)
	if pos == len(known) && ul < 8 {
		// a trailing parameter shorter than a header plus one word is not looked at
		vassert(err == nil, "a short trailing unknown parameter does not make the chunk undecodable")
	}
	vassert(err == nil, "a chunk with an unknown parameter decodes")
	if err != nil || len(q.chunks) != 1 {
		return
	}
	var got *chunkInitCommon
	switch x := q.chunks[0].(type) {
	case *chunkInit:
		got = &x.chunkInitCommon
	case *chunkInitAck:
		got = &x.chunkInitCommon
	}
	vassert(got != nil, "decodes as the same kind of chunk")
	if got == nil {
		return
	}
	vassert(got.initiateTag == common.initiateTag && got.initialTSN == common.initialTSN && got.advertisedReceiverWindowCredit == common.advertisedReceiverWindowCredit && got.numOutboundStreams == common.numOutboundStreams && got.numInboundStreams == common.numInboundStreams, "fixed fields preserved")
	foundExt, foundCookie := false, false
	for _, gp := range got.params {
		switch x := gp.(type) {
		case *paramSupportedExtensions:
			want := known[0].(*paramSupportedExtensions)
			same := len(x.ChunkTypes) == len(want.ChunkTypes)
			for i := 0; same && i < len(x.ChunkTypes); i++ {
				same = x.ChunkTypes[i] == want.ChunkTypes[i]
			}
			vassert(same, "the supported-extensions list is intact")
			foundExt = true
		case *paramStateCookie:
			vassert(vBytesEq(x.cookie, cookie), "the state cookie is intact")
			foundCookie = true
		}
	}
	vassert(foundExt, "the supported-extensions parameter is found behind / before the unknown one")
	vassert(foundCookie == ack, "the state cookie is found exactly when it was sent")
	vcover("end")
}

// C12.L5: the largest chunk the encoders accept fits the 16-bit chunk length field: the
// per-chunk entry limits are derived so that header + fixed part + entries <= 65535.
func vh_C12_L5_entry_limits_fit_length_field() {
	vassert(chunkHeaderSize+newCumulativeTSNLength+maxIForwardTSNStreams*iForwardTSNEntryLength <= 65535, "an I-FORWARD-TSN with the maximum number of entries fits the 16-bit chunk length")
	n := maxIForwardTSNStreams
	c := &chunkIForwardTSN{newCumulativeTSN: nondetU32()}
	_ = n
	abort, err := c.check()
	vassert(!abort && err == nil, "an empty I-FORWARD-TSN is valid")
	vcover("end")
}

// C12.L5: packets emitted during loss recovery are well formed too. The head of a flight is
// lost while its tail is acknowledged by gap blocks; fast retransmission, RACK, the tail-loss
// probe and T3 all choose what to send again: every packet decodes locally and every DATA
// chunk carries user data (= C06.L3d, whose every emitted packet goes through vDecode).
func vh_C12_L5_recovery_packets_are_well_formed() { vh_C06_L3_transmission_count_fast_retransmit() }

// C12.L2b: a HEARTBEAT-ACK whose length includes zero bytes behind its information
// parameter (the decoder accepts that) means the same alone and in front of another chunk.
// Information of 0, 3, 4 or 8 arbitrary bytes, 0..8 trailing zero bytes inside the chunk's
// own length, alone or followed by a SACK: the packet decodes, the information is what was
// sent, and the chunk behind it is found where the first chunk's own length says it starts.
func vh_C12_L2_heartbeat_ack_with_trailing_zeros_bundled() {
	l := []int{0, 3, 4, 8}[vPick(4)]
	z := vPick(9)
	withSack := vPick(2) == 1
	info := nondetBytes(l)
	vl := 4 + l + z // chunk value: parameter header, information, trailing zeros
	raw := make([]byte, packetHeaderSize)
	raw[0], raw[1], raw[2], raw[3] = 0x13, 0x88, 0x13, 0x88
	isAck := vPick(2) == 1 // the same for the HEARTBEAT request itself
	typ := ctHeartbeat
	if isAck {
		typ = ctHeartbeatAck
	}
	raw = append(raw, byte(typ), 0, byte((chunkHeaderSize+vl)>>8), byte(chunkHeaderSize+vl))
	raw = append(raw, 0, byte(heartbeatInfo), 0, byte(4+l))
	raw = append(raw, info...)
	raw = append(raw, make([]byte, z+getPadding(vl))...)
	cum := nondetU32()
	if withSack {
		raw = append(raw, byte(ctSack), 0, 0, 16, byte(cum>>24), byte(cum>>16), byte(cum>>8), byte(cum), 0, 0, 1, 0, 0, 0, 0, 0)
	}
	vFixChecksum(raw)
	p := &packet{}
	err := p.unmarshal(false, raw)
	vassert(err == nil, "a HEARTBEAT / HEARTBEAT-ACK the decoder accepts on its own is accepted inside a packet")
	if err != nil {
		return
	}
	want := 1
	if withSack {
		want = 2
	}
	vassert(len(p.chunks) == want, "every chunk of the packet is found")
	var params []param
	if isAck {
		ack, ok := p.chunks[0].(*chunkHeartbeatAck)
		vassert(ok, "a HEARTBEAT-ACK")
		if ok {
			params = ack.params
		}
	} else {
		hb, ok := p.chunks[0].(*chunkHeartbeat)
		vassert(ok, "a HEARTBEAT")
		if ok {
			params = hb.params
		}
	}
	vassert(len(params) == 1, "the chunk carries its parameter")
	if len(params) == 1 {
		hi, isInfo := params[0].(*paramHeartbeatInfo)
		vassert(isInfo && vBytesEq(hi.heartbeatInformation, info), "the information is what was sent")
	}
	if withSack && len(p.chunks) == 2 {
		sack, isSack := p.chunks[1].(*chunkSelectiveAck)
		vassert(isSack && sack.cumulativeTSNAck == cum && sack.advertisedReceiverWindowCredit == 256, "the chunk behind it decodes to what was sent")
	}
	vcover("end")
}

// C12.L6: the packets a server emits after an INIT decode locally with checksum verification
// on: a Zero Checksum Acceptable parameter naming another method than DTLS does not switch
// the checksum off (= C13.L3b).
func vh_C12_L6_checksum_kept_unless_dtls_method_offered() {
	vh_C13_L3_learned_only_from_wellformed_parameter()
}
