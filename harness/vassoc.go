//go:build verif

package sctp

// Association-level harness support: a real Association built by the real
// constructor over a stub transport and a silent logger, then put into an arbitrary
// state by the individual harnesses.

import (
	"net"
	"time"

	"github.com/pion/logging"
)

type vLogger struct{}

func (vLogger) Trace(string)          {}
func (vLogger) Tracef(string, ...any) {}
func (vLogger) Debug(string)          {}
func (vLogger) Debugf(string, ...any) {}
func (vLogger) Info(string)           {}
func (vLogger) Infof(string, ...any)  {}
func (vLogger) Warn(string)           {}
func (vLogger) Warnf(string, ...any)  {}
func (vLogger) Error(string)          {}
func (vLogger) Errorf(string, ...any) {}

type vLoggerFactory struct{}

func (vLoggerFactory) NewLogger(string) logging.LeveledLogger { return vLogger{} }

type vAddr struct{}

func (vAddr) Network() string { return "v" }
func (vAddr) String() string  { return "v" }

// vConn is the stub transport: it records what the association does to it.
type vConn struct {
	writes     int
	closes     int
	lastWrite  []byte
	failWrites bool
	failReads  bool
	readDL     int
	writeDL    int
}

type vConnErr struct{}

func (vConnErr) Error() string { return "vconn: injected failure" }

func (c *vConn) Read(b []byte) (int, error) {
	if c.failReads {
		return 0, vConnErr{}
	}
	vblocked()
	return 0, nil
}

func (c *vConn) Write(b []byte) (int, error) {
	c.writes++
	c.lastWrite = append([]byte{}, b...)
	if c.failWrites {
		return 0, vConnErr{}
	}
	return len(b), nil
}

func (c *vConn) Close() error                       { c.closes++; return nil }
func (c *vConn) LocalAddr() net.Addr                { return vAddr{} }
func (c *vConn) RemoteAddr() net.Addr               { return vAddr{} }
func (c *vConn) SetDeadline(time.Time) error        { return nil }
func (c *vConn) SetReadDeadline(time.Time) error    { c.readDL++; return nil }
func (c *vConn) SetWriteDeadline(time.Time) error   { c.writeDL++; return nil }

type vAssocOpts struct {
	mtu          uint32
	recvBuf      uint32
	interleaving bool
	zeroChecksum bool
	blockWrite   bool
	maxEntries   uint32
	realWindow   bool // keep the TSN tracking window the constructor chose (32+ words)
}

// vNewAssoc builds an association with a symbolic initial TSN, in state established,
// with a symbolic peer cumulative TSN.
func vNewAssocOpts(o vAssocOpts) (*Association, *vConn) {
	conn := &vConn{}
	cfg := &Config{
		NetConn:                   conn,
		LoggerFactory:             vLoggerFactory{},
		Name:                      "v",
		MTU:                       o.mtu,
		MaxReceiveBufferSize:      o.recvBuf,
		EnableZeroChecksum:        o.zeroChecksum,
		BlockWrite:                o.blockWrite,
		maxReassemblyQueueEntries: o.maxEntries,
	}
	a := createAssociationFromConfigWithTsn(cfg, nondetU32())
	a.localInterleaving = o.interleaving
	a.peerVerificationTag = nondetU32()
	a.sourcePort, a.destinationPort = 5000, 5000
	if !o.realWindow {
		// small TSN tracking window (192 TSNs, 4-word ring): keeps bitmap terms small;
		// the real sizes are covered by the C05 harnesses
		a.payloadQueue = newReceivePayloadQueue(192)
	}
	a.payloadQueue.init(nondetU32())
	a.setState(established)
	if o.interleaving {
		a.peerInterleaving = true
		a.peerIForwardTSN = true
		a.updateInterleavingState()
	}
	return a, conn
}

func vNewAssoc() (*Association, *vConn) { return vNewAssocOpts(vAssocOpts{}) }
