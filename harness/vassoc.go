//go:build verif

package sctp

// Association-level harness support: a real Association built by the real
// constructor over a stub transport and a silent logger, then put into an arbitrary
// state by the individual harnesses.

import (
	"net"
	"time"

	"github.com/pion/logging"
	"github.com/pion/transport/v4/deadline"
)

type vLogger struct{}

func (vLogger) Trace(string)          {}
func (vLogger) Tracef(string, ...any) {}
func (vLogger) Debug(string)          {}
func (vLogger) Debugf(string, ...any) {}
func (vLogger) Info(string)           {}
func (vLogger) Infof(string, ...any)  {}
func (vLogger) Warn(string)           {}
func (vLogger) Warnf(string, ...any)  {}
func (vLogger) Error(string)          {}
func (vLogger) Errorf(string, ...any) {}

type vLoggerFactory struct{}

func (vLoggerFactory) NewLogger(string) logging.LeveledLogger { return vLogger{} }

type vAddr struct{}

func (vAddr) Network() string { return "v" }
func (vAddr) String() string  { return "v" }

// vConn is the stub transport: it records what the association does to it.
type vConn struct {
	writes     int
	closes     int
	lastWrite  []byte
	failWrites bool
	writeErr   error // error returned by failing writes (default vConnErr)
	failReads  bool
	inbound    [][]byte // packets Read returns before it fails / blocks
	closeErr   error    // what Close returns (a failing DTLS / ICE teardown)
	readDL     int
	writeDL    int
	onWrite    func() // runs inside Write, once: something another goroutine does while the writer is in the transport
}

type vConnErr struct{}

func (vConnErr) Error() string { return "vconn: injected failure" }

func (c *vConn) Read(b []byte) (int, error) {
	if len(c.inbound) > 0 {
		p := c.inbound[0]
		c.inbound = c.inbound[1:]
		return copy(b, p), nil
	}
	if c.failReads {
		return 0, vConnErr{}
	}
	select {} // a healthy idle transport: Read blocks
}

func (c *vConn) Write(b []byte) (int, error) {
	if f := c.onWrite; f != nil {
		c.onWrite = nil
		f()
	}
	c.writes++
	c.lastWrite = append([]byte{}, b...)
	if c.failWrites {
		if c.writeErr != nil {
			return 0, c.writeErr
		}
		return 0, vConnErr{}
	}
	return len(b), nil
}

func (c *vConn) Close() error                     { c.closes++; return c.closeErr }
func (c *vConn) LocalAddr() net.Addr              { return vAddr{} }
func (c *vConn) RemoteAddr() net.Addr             { return vAddr{} }
func (c *vConn) SetDeadline(time.Time) error      { return nil }
func (c *vConn) SetReadDeadline(time.Time) error  { c.readDL++; return nil }
func (c *vConn) SetWriteDeadline(time.Time) error { c.writeDL++; return nil }

type vAssocOpts struct {
	mtu          uint32
	recvBuf      uint32
	interleaving bool
	zeroChecksum bool
	blockWrite   bool
	maxEntries   uint32
	realWindow   bool // keep the TSN tracking window the constructor chose (32+ words)
	fixedTSN     bool // initial TSN 0x7ffffffe
	pickTSN      bool // initial TSNs from {2^32-2, 2^31-2, 5} instead of fully symbolic (multi-packet scenarios)
}

// vNewAssoc builds an association with a symbolic initial TSN, in state established,
// with a symbolic peer cumulative TSN.
func vNewAssocOpts(o vAssocOpts) (*Association, *vConn) {
	conn := &vConn{}
	cfg := &Config{
		NetConn:                   conn,
		LoggerFactory:             vLoggerFactory{},
		Name:                      "v",
		MTU:                       o.mtu,
		MaxReceiveBufferSize:      o.recvBuf,
		EnableZeroChecksum:        o.zeroChecksum,
		BlockWrite:                o.blockWrite,
		maxReassemblyQueueEntries: o.maxEntries,
	}
	var tsn uint32
	if o.pickTSN {
		tsn = []uint32{0xfffffffe, 0x7ffffffe, 5}[vPick(3)]
	} else if o.fixedTSN {
		tsn = 0x7ffffffe
	} else {
		tsn = nondetU32()
	}
	a := createAssociationFromConfigWithTsn(cfg, tsn)
	a.localInterleaving = o.interleaving
	a.peerVerificationTag = nondetU32()
	a.sourcePort, a.destinationPort = 5000, 5000
	if !o.realWindow {
		// small TSN tracking window (192 TSNs, 4-word ring): keeps bitmap terms small;
		// the real sizes are covered by the C05 harnesses
		a.payloadQueue = newReceivePayloadQueue(192)
	}
	if o.pickTSN || o.fixedTSN {
		a.payloadQueue.init(7)
	} else {
		a.payloadQueue.init(nondetU32())
	}
	a.setState(established)
	if o.interleaving {
		a.peerInterleaving = true
		a.peerIForwardTSN = true
		a.updateInterleavingState()
	}
	return a, conn
}

func vNewAssoc() (*Association, *vConn) { return vNewAssocOpts(vAssocOpts{}) }

// ---- two associations wired back to back (loss-free unless a harness drops packets)

type vClosedCtx struct{ ch chan struct{} }

func vNewClosedCtx() *vClosedCtx {
	c := &vClosedCtx{ch: make(chan struct{})}
	close(c.ch)
	return c
}

type vCtxErr struct{}

func (vCtxErr) Error() string { return "vctx: done" }

func (c *vClosedCtx) Deadline() (time.Time, bool) { return time.Time{}, false }
func (c *vClosedCtx) Done() <-chan struct{}       { return c.ch }
func (c *vClosedCtx) Err() error                  { return vCtxErr{} }
func (c *vClosedCtx) Value(any) any               { return nil }

// vPair returns two established associations that are each other's peer.
func vPair(o vAssocOpts) (*Association, *Association) {
	a, _ := vNewAssocOpts(o)
	ob := o
	if o.pickTSN {
		ob.pickTSN, ob.fixedTSN = false, true // only one side's initial TSN is varied
	}
	b, _ := vNewAssocOpts(ob)
	a.peerVerificationTag, b.peerVerificationTag = b.myVerificationTag, a.myVerificationTag
	a.payloadQueue.init(b.myNextTSN - 1)
	b.payloadQueue.init(a.myNextTSN - 1)
	a.sourcePort, a.destinationPort = 5000, 5001
	b.sourcePort, b.destinationPort = 5001, 5000
	a.cwnd, a.rwnd, b.cwnd, b.rwnd = 1<<20, 1<<20, 1<<20, 1<<20
	return a, b
}

// vWriterPass is one iteration of writeLoop without the transport: gather, and close
// the association when the gathered packets were terminal.
// vIsShut reports whether close() ran (state CLOSED alone also describes a listening server).
func vIsShut(a *Association) bool {
	select {
	case <-a.closeWriteLoopCh:
		return true
	default:
		return false
	}
}

// vWriterWake is what the real write loop does after its first pass: it sleeps until it
// is woken (a token in awakeWriteLoopCh) and only then gathers. A handler or timer
// callback that forgets to wake the writer leaves its output unsent, exactly as in the
// real loop.
func vWriterWake(a *Association) [][]byte {
	if vIsShut(a) {
		return nil
	}
	select {
	case <-a.awakeWriteLoopCh:
		return vWriterPass(a)
	default:
		return nil
	}
}

func vWriterPass(a *Association) [][]byte {
	if vIsShut(a) {
		return nil
	}
	pkts, ok := a.gatherOutbound()
	if !ok {
		_ = a.close()
	}
	return pkts
}

func vDecode(raw []byte) *packet {
	p := &packet{}
	if err := p.unmarshal(false, raw); err != nil {
		vassert(false, "every emitted packet decodes locally")
		return nil
	}
	for _, c := range p.chunks {
		if d, ok := c.(*chunkPayloadData); ok {
			vassert(len(d.userData) > 0, "every emitted DATA chunk carries user data (RFC 9260 3.3.1)")
		}
	}
	return p
}

// vFireAck lets a pending delayed-ack timer expire.
func vFireAck(a *Association) {
	if !vIsShut(a) && a.ackTimer.timer.Stop() {
		a.ackTimer.timeout()
	}
}

// vInbound is one iteration of readLoop for one packet; a fatal error closes like readLoop does.
func vInbound(a *Association, raw []byte) {
	if vIsShut(a) {
		return
	}
	vSideOf(a) // the cumulative point before this packet, if it is the first
	if p := (&packet{}); p.unmarshal(false, raw) == nil {
		vNoteDelivered(a, p.chunks)
	}
	if err := a.handleInbound(raw); err != nil {
		_ = a.close()
	}
}

// vFireRtx lets an armed retransmission timer expire (runtime timer fires, callback runs).
func vFireRtx(a *Association, t *rtxTimer) bool {
	if !vIsShut(a) && t.timer.Stop() {
		t.timeout()
		return true
	}
	return false
}

// vFireRack / vFirePTO let an armed RACK or PTO deadline pass: exactly what timerLoop does
// when its runtime timer fires (snapshot and clear the deadline under timerMu, then run the
// callback without timerMu).
func vFireRack(a *Association) bool {
	if vIsShut(a) {
		return false
	}
	a.timerMu.Lock()
	due := !a.rackDeadline.IsZero()
	if due {
		a.rackDeadline = time.Time{}
	}
	a.timerMu.Unlock()
	if due {
		a.onRackTimeout()
	}
	return due
}

func vFirePTO(a *Association) bool {
	if vIsShut(a) {
		return false
	}
	a.timerMu.Lock()
	due := !a.ptoDeadline.IsZero()
	if due {
		a.ptoDeadline = time.Time{}
	}
	a.timerMu.Unlock()
	if due {
		a.onPTOTimer()
	}
	return due
}

// vFireAll expires every armed protocol timer of a once.
func vFireAll(a *Association) {
	vFireAck(a)
	vFireRack(a)
	vFirePTO(a)
	vFireRtx(a, a.t3RTX)
	vFireRtx(a, a.t2Shutdown)
	vFireRtx(a, a.tReconfig)
	vFireRtx(a, a.t1Init)
	vFireRtx(a, a.t1Cookie)
}

// deadlineExceeded returns a write deadline that has already expired.
func deadlineExceeded() *deadline.Deadline {
	d := deadline.New()
	d.Set(time.Now().Add(-time.Second))
	return d
}

// a context that is never done
type vNeverCtx struct{}

func (vNeverCtx) Deadline() (time.Time, bool) { return time.Time{}, false }
func (vNeverCtx) Done() <-chan struct{}       { return nil }
func (vNeverCtx) Err() error                  { return nil }
func (vNeverCtx) Value(any) any               { return nil }

func vLocksFree(a *Association, s *Stream) bool {
	free := !vRWMutexHeldNative(&a.lock) && !vMutexHeldNative(&a.timerMu)
	if s != nil {
		free = free && !vRWMutexHeldNative(&s.lock)
	}
	for _, t := range []*rtxTimer{a.t1Init, a.t1Cookie, a.t2Shutdown, a.t3RTX, a.tReconfig} {
		free = free && !vMutexHeldNative(&t.mutex)
	}
	return free && !vMutexHeldNative(&a.ackTimer.mutex) && !vRWMutexHeldNative(&a.rtoMgr.mutex)
}

// vWriterPending reports whether the writer has been woken and has not run yet.
func vWriterPending(a *Association) bool {
	return !vIsShut(a) && len(a.awakeWriteLoopCh) > 0
}
