//go:build verif

package sctp

import "math/bits"

// C05 — selective acknowledgements tell the truth about what was received.
//
// BMC-k differential harness: the real receivePayloadQueue, started by its real
// constructor and init() at a fully symbolic 32-bit cumulative TSN, is driven by k
// operations with symbolic arguments and compared after every step with a
// representation-independent reference model (a set of at most k TSNs).

const vRefMax = 4

type vRPQRef struct {
	cum    uint32
	maxOff uint32
	t      [vRefMax]uint32
	held   [vRefMax]bool
	n      int
	dups   int
}

// serial-number order written independently of util.go: a strictly before b.
func vBefore(a, b uint32) bool { d := b - a; return d != 0 && d < 1<<31 }

func (m *vRPQRef) has(p uint32) bool {
	r := false
	for i := 0; i < m.n; i++ {
		r = r || (m.held[i] && m.t[i] == p)
	}
	return r
}

func (m *vRPQRef) count() int {
	c := 0
	for i := 0; i < m.n; i++ {
		c += int(vb2u(m.held[i]))
	}
	return c
}

func (m *vRPQRef) inWindow(t uint32) bool {
	off := t - m.cum
	return off >= 1 && off <= m.maxOff
}

func (m *vRPQRef) canPush(t uint32) bool { return m.inWindow(t) && !m.has(t) }

// push is written without data-dependent control flow so that the model itself
// does not multiply paths: slot n is always filled, held only if accepted.
func (m *vRPQRef) push(t uint32) bool {
	ok := m.canPush(t)
	dup := !ok && !vBefore(m.cum+m.maxOff, t)
	m.t[m.n] = t
	m.held[m.n] = ok
	m.n++
	m.dups += int(vb2u(dup))
	return ok
}

func (m *vRPQRef) pop(force bool) bool {
	next := m.cum + 1
	found := m.has(next)
	for i := 0; i < m.n; i++ {
		m.held[i] = m.held[i] && m.t[i] != next
	}
	if found || force {
		m.cum = next
	}
	return found
}

func (m *vRPQRef) advance(n uint32) {
	if !vBefore(m.cum, n) {
		return
	}
	for i := 0; i < m.n; i++ {
		m.held[i] = m.held[i] && vBefore(n, m.t[i])
	}
	m.cum = n
}

// highest held TSN (serially), valid when count() > 0
func (m *vRPQRef) highest() uint32 {
	h := m.cum
	for i := 0; i < m.n; i++ {
		if m.held[i] && vBefore(h, m.t[i]) {
			h = m.t[i]
		}
	}
	return h
}

func vRPQMaxOffChoices() []uint32 {
	if vtier() == 0 {
		return []uint32{192}
	}
	return []uint32{64, 192, 2048, getMaxTSNOffset(defaultMaxReceiveBufferSizeForVerif), 8448, 40000}
}

const defaultMaxReceiveBufferSizeForVerif = 1024 * 1024

// compare the implementation with the model at an arbitrary probe TSN.
func vRPQCompare(q *receivePayloadQueue, m *vRPQRef, step string) {
	p := nondetU32()
	vassert(q.getcumulativeTSN() == m.cum, "cumulative TSN equals model ("+step+")")
	vassert(q.size() == m.count(), "number of held TSNs equals model ("+step+")")
	vassert(q.hasChunk(p) == m.has(p), "hasChunk(probe) equals model ("+step+")")
	vassert(q.canPush(p) == m.canPush(p), "canPush(probe) equals model ("+step+")")
	last, ok := q.getLastTSNReceived()
	vassert(ok == (m.count() > 0), "getLastTSNReceived ok flag ("+step+")")
	if ok {
		vassert(!vBefore(last, m.highest()), "tail TSN not below highest held TSN ("+step+")")
	}
}

func vRPQPush(q *receivePayloadQueue, m *vRPQRef, step string) {
	t := nondetU32()
	// exactly half the number space away is undefined in serial arithmetic
	vassume(t-m.cum != 1<<31 && t-(m.cum+m.maxOff) != 1<<31)
	r := q.push(t)
	vassert(r == m.push(t), "push result equals model ("+step+")")
	vassert(len(q.dupTSN) == m.dups, "duplicate list length equals model ("+step+")")
}

// vRPQPushAccepted pushes a symbolic TSN that the model says must be accepted
// (rejected pushes are covered, with all their outcomes, by vh_C05_bmc_push).
func vRPQPushAccepted(q *receivePayloadQueue, m *vRPQRef, step string) {
	// every in-window TSN has the form cum+off with 1 <= off <= maxOff
	off := uint32(nondetU16())
	vassume(off >= 1 && off <= m.maxOff)
	t := m.cum + off
	vassume(!m.has(t))
	r := q.push(t)
	vassert(r, "in-window new TSN is accepted ("+step+")")
	m.push(t)
}

func vRPQPop(q *receivePayloadQueue, m *vRPQRef, step string) {
	f := nondetBool()
	cumBefore := m.cum
	r := q.pop(f)
	vassert(r == m.pop(f), "pop result equals model ("+step+")")
	vassert(!vBefore(q.getcumulativeTSN(), cumBefore), "cumulative TSN never moves backwards (pop)")
}

func vRPQAdvance(q *receivePayloadQueue, m *vRPQRef, step string) {
	n := nondetU32()
	vassume(n-m.cum != 1<<31)
	cumBefore := m.cum
	q.advanceCumulativeTSN(n)
	m.advance(n)
	vassert(!vBefore(q.getcumulativeTSN(), cumBefore), "cumulative TSN never moves backwards (advance)")
}

func vRPQStart() (*receivePayloadQueue, *vRPQRef) {
	return vRPQStartWith(vRPQMaxOffChoices())
}

func vRPQStartWith(choices []uint32) (*receivePayloadQueue, *vRPQRef) {
	return vRPQStartAt(choices, nondetU32())
}

func vRPQStartAt(choices []uint32, cum uint32) (*receivePayloadQueue, *vRPQRef) {
	maxOff := choices[vPick(len(choices))]
	q := newReceivePayloadQueue(maxOff)
	q.init(cum)
	m := &vRPQRef{cum: cum, maxOff: q.maxTSNOffset}
	vassert(q.maxTSNOffset >= maxOff && q.maxTSNOffset < maxOff+64, "window size is the requested one rounded up to 64")
	return q, m
}

// C05.L1/L2 (BMC): pushes from init, every argument symbolic.
func vh_C05_bmc_push() {
	q, m := vRPQStart()
	vRPQCompare(q, m, "init")
	vRPQPush(q, m, "push1")
	vRPQPush(q, m, "push2")
	if vtier() > 0 {
		vRPQPush(q, m, "push3")
	}
	vRPQCompare(q, m, "after pushes")
	vobserve("cum", uint64(q.getcumulativeTSN()))
	vobserve("size", uint64(q.size()))
	vcover("end")
}

// light comparison used in the multi-step harnesses (the full one runs in bmc_push).
func vRPQCompareLight(q *receivePayloadQueue, m *vRPQRef, step string) {
	p := m.cum + uint32(nondetU16()) // probe anywhere in (cum, cum+65535]
	vassert(q.getcumulativeTSN() == m.cum, "cumulative TSN equals model ("+step+")")
	vassert(q.size() == m.count(), "number of held TSNs equals model ("+step+")")
	vassert(q.hasChunk(p) == m.has(p), "hasChunk(probe) equals model ("+step+")")
}

// representation invariant: the bitmap holds exactly as many set bits as the queue says it
// holds TSNs (a bit left behind by pop/advance is invisible to the observers until the
// ring has turned once more; this catches it at once).
func vRPQInvariant(q *receivePayloadQueue, step string) {
	n := 0
	for _, w := range q.tsnBitmask {
		n += bits.OnesCount64(w)
	}
	vassert(n == q.size(), "bits set in the TSN bitmap equal the number of TSNs held ("+step+")")
}

// C05.L3 (BMC): accepted push(es), a pop, then a push (ring slot reuse), compare.
func vh_C05_bmc_pop() {
	q, m := vRPQStart()
	vRPQPushAccepted(q, m, "push1")
	if vtier() > 0 {
		vRPQPushAccepted(q, m, "push2")
	}
	vRPQPop(q, m, "pop1")
	vRPQInvariant(q, "after pop")
	vRPQPushAccepted(q, m, "push3")
	vRPQCompareLight(q, m, "after push following pop")
	vobserve("cum", uint64(q.getcumulativeTSN()))
	vobserve("size", uint64(q.size()))
	vcover("end")
}

// C05.L4 (BMC): accepted push(es), forward-TSN style advance, push, compare.
func vh_C05_bmc_advance() {
	q, m := vRPQStart()
	vRPQPushAccepted(q, m, "push1")
	if vtier() > 0 {
		vRPQPushAccepted(q, m, "push2")
	}
	vRPQAdvance(q, m, "advance")
	vRPQInvariant(q, "after advance")
	vRPQPushAccepted(q, m, "push3")
	vRPQCompareLight(q, m, "after push following advance")
	vobserve("cum", uint64(q.getcumulativeTSN()))
	vobserve("size", uint64(q.size()))
	vcover("end")
}

// C05.L4b: the same with a window that fills its ring exactly (64 TSNs in one word: the last
// slot of the window and the cumulative TSN share a bit position).
func vh_C05_bmc_advance_ring_equals_window() {
	q, m := vRPQStartWith([]uint32{64})
	vRPQPushAccepted(q, m, "push1")
	if vtier() > 0 {
		vRPQPushAccepted(q, m, "push2")
	}
	vRPQAdvance(q, m, "advance")
	vRPQInvariant(q, "after advance")
	vRPQCompareLight(q, m, "after advance")
	vcover("end")
}

// C05.L0: every TSN the queue admits can be reported: the window built for any receive buffer
// size fits the 16-bit offsets of gap ack blocks and its bitmap (= C01.L4b).
func vh_C05_L0_window_fits_gap_blocks() { vh_C01_L4_tracking_window_capacity() }

// C05.L5 (BMC): gap ack blocks are sound and complete w.r.t. the model. The scan loop
// chains trailing-zero computations on shifted bitmap words, which no available solver
// refutes in reasonable time when the bit positions are symbolic (20-60 s per query
// measured). The bound therefore fixes the *bit* positions and keeps the *word* positions
// symbolic: cum = 64*k + r with k a symbolic 26-bit value (every ring rotation, every
// distance to the 2^32 wrap) and r in {0, 1, 62, 63}; 2 (3 thorough) accepted pushes at
// offsets from a set that covers word boundaries and the window edge; optional pop.
func vh_C05_bmc_gaps() {
	rs := []uint32{0, 62, 63}
	offs := []uint32{1, 2, 3, 64, 65, 66, 129, 192}
	np := 2
	if vtier() > 0 {
		rs = []uint32{0, 1, 62, 63}
		offs = []uint32{1, 2, 3, 63, 64, 65, 66, 127, 128, 129, 191, 192}
		np = 3
	}
	r := rs[vPick(len(rs))]
	cum := nondetU32()&^63 | r
	q, m := vRPQStartAt([]uint32{192}, cum)
	last := -1
	for i := 0; i < np; i++ {
		k := last + 1 + vPick(len(offs)-last-1-(np-1-i)) // strictly increasing choice of offsets
		last = k
		t := m.cum + offs[k]
		vassert(q.push(t), "in-window new TSN is accepted (gaps)")
		m.push(t)
	}
	if nondetBool() {
		vassert(q.pop(false) == m.pop(false), "pop result equals model (gaps)")
	}
	blocks := q.getGapAckBlocks()
	vassert(len(blocks) <= np, "no more gap blocks than held TSNs")
	p := m.cum + uint32(nondetU8()) // probe anywhere in (cum, cum+255]
	off := p - m.cum
	inBlock := false
	prevEnd := uint16(0)
	for i, b := range blocks {
		vassert(b.start >= 1 && b.start <= b.end, "gap block has 1 <= start <= end")
		if i > 0 {
			vassert(b.start > prevEnd+1, "gap blocks ascending, disjoint and not adjacent")
		}
		prevEnd = b.end
		if off >= uint32(b.start) && off <= uint32(b.end) {
			inBlock = true
		}
	}
	vassert(inBlock == m.has(p), "probe TSN is inside a gap block iff it was accepted and not yet cumulatively acked")
	vobserve("nblocks", uint64(len(blocks)))
	vcover("end")
}

// C05.L6: the SACK an association emits tells the truth. Bit positions concrete, word
// positions symbolic (as in vh_C05_bmc_gaps): two chunks received above a hole, one of
// them (or an old one) received again; the emitted SACK, decoded from the wire, carries
// the cumulative TSN, gap blocks covering exactly the TSNs held, and the duplicate.
func vh_C05_L6_emitted_sack_truth() {
	a, _ := vNewAssoc()
	a.payloadQueue.init(nondetU32()&^63 | []uint32{0, 62, 63}[vPick(3)])
	cum := a.peerLastTSN()
	offs := []uint32{2, 3, 4, 65, 66, 130}
	i1 := vPick(len(offs) - 1)
	i2 := i1 + 1 + vPick(len(offs)-1-i1)
	o1, o2 := offs[i1], offs[i2]
	vassert(vDeliver(a, vDataChunk(a, cum+o1, 4, true, 1)) == nil, "DATA ok")
	vassert(vDeliver(a, vDataChunk(a, cum+o2, 4, true, 1)) == nil, "DATA ok")
	dupOff := []uint32{o1, o2, 0}[vPick(3)] // a held TSN again, or one at the cumulative point
	vassert(vDeliver(a, vDataChunk(a, cum+dupOff, 4, true, 1)) == nil, "DATA ok")
	var sack *chunkSelectiveAck
	for _, raw := range vWriterWake(a) {
		p := vDecode(raw)
		for _, c := range p.chunks {
			if s, ok := c.(*chunkSelectiveAck); ok {
				sack = s
			}
		}
	}
	vassert(sack != nil, "a SACK is emitted at once (gap and duplicate)")
	if sack == nil {
		return
	}
	vassert(sack.cumulativeTSNAck == cum, "the cumulative ack does not cover TSNs that were not received")
	in := func(off uint32) bool {
		for _, b := range sack.gapAckBlocks {
			if off >= uint32(b.start) && off <= uint32(b.end) {
				return true
			}
		}
		return false
	}
	vassert(in(o1) && in(o2), "every TSN accepted so far is reported")
	for _, off := range []uint32{1, o1 - 1, o1 + 1, o2 - 1, o2 + 1} {
		if off != o1 && off != o2 {
			vassert(!in(off), "gap blocks name only TSNs that were received")
		}
	}
	vassert(len(sack.duplicateTSN) == 1 && sack.duplicateTSN[0] == cum+dupOff, "the duplicate is reported once, with its TSN")
	vcover("end")
}

// C05.L6b: SACK wire format with gap blocks and duplicates together (same obligation as vh_C12_L1).
func vh_C05_L6_sack_wire_roundtrip() { vh_C12_L1_roundtrip_sack_fwd() }

// C05.S1 (one step from an arbitrary state): clearTSNRange on an arbitrary bitmap. Every
// bit whose ring position belongs to a TSN of [start, start+n-1] (n = 1..192, any start,
// also across the 2^32 wrap) is cleared and every other bit keeps its value.
func vh_C05_step_clear_range() {
	q := newReceivePayloadQueue(192)
	vassert(len(q.tsnBitmask) == 4, "four words")
	var before [4]uint64
	for i := range q.tsnBitmask {
		w := nondetU64()
		q.tsnBitmask[i], before[i] = w, w
	}
	q.chunkSize = 256 // enough for any number of bits cleared
	start := nondetU32()
	n := 1 + uint32(nondetU8())%192
	q.clearTSNRange(start, start+n-1)
	probe := nondetU32()
	idx, bit := (probe/64)%4, probe%64
	was := before[idx] >> bit & 1
	now := q.tsnBitmask[idx] >> bit & 1
	if (probe-start)%256 < n {
		vassert(now == 0, "every TSN of the range is cleared (also when the range crosses 2^32)")
	} else {
		vassert(now == was, "no bit outside the range changes")
	}
	// (that the count of held TSNs follows the bits cleared is an identity between population
	// counts of symbolic words which no available solver decides in 30 s; it is checked on the
	// states reachable from init by vRPQInvariant in the BMC harnesses)
	vobserve("n", uint64(n))
	vcover("end")
}

// C05.L7: the cumulative point starts at the initial TSN of the peer that completes the
// handshake, whichever packet carried it (INIT, INIT ACK, with losses and collisions): the
// first SACK never covers a TSN that was not received (= C04.L1 / L1b, which assert it).
func vh_C05_L7_initial_cumulative_point_client_server()     { vh_C04_L1_client_server() }
func vh_C05_L7_initial_cumulative_point_simultaneous_open() { vh_C04_L1_simultaneous_open() }

// C05.L9: a chunk that was dropped because its TSN lies outside the window is never marked
// as received, so no SACK ever names it (= C01.L4).
func vh_C05_L9_dropped_chunk_is_never_marked_received() { vh_C01_L4_duplicate_suppression() }

// C05.L10: a gap filler accepted while the window is closed is reported like any other
// accepted chunk (= C11.L2).
func vh_C05_L10_gap_filler_at_zero_window_is_reported() { vh_C11_L2_credit_and_full_buffer() }

// C05.L11: every received run is reported, however many there are and whatever the MTU. With
// an MTU of 36, 100 or the default, 3, 6 or 20 single chunks arrive each one TSN apart from
// the next (so each is a gap block of its own); the SACK emitted afterwards, decoded from the
// wire, names every one of them (a SACK is never cut to fit a packet size: what it leaves
// out the peer takes for lost).
func vh_C05_L11_every_run_is_reported_whatever_the_mtu() {
	a, _ := vNewAssocOpts(vAssocOpts{fixedTSN: true, mtu: []uint32{36, 100, 0}[vPick(3)]})
	cum := a.peerLastTSN()
	k := []int{3, 6, 20}[vPick(3)]
	for i := 1; i <= k; i++ {
		vassert(vDeliver(a, vDataChunk(a, cum+uint32(2*i), 4, true, 1)) == nil, "DATA ok")
	}
	var sack *chunkSelectiveAck
	for _, raw := range vWriterWake(a) {
		p := vDecode(raw)
		for _, c := range p.chunks {
			if s, ok := c.(*chunkSelectiveAck); ok {
				sack = s
			}
		}
	}
	vassert(sack != nil, "a SACK is emitted")
	if sack == nil {
		return
	}
	vassert(sack.cumulativeTSNAck == cum, "the cumulative ack stays below the first hole")
	vassert(len(sack.gapAckBlocks) == k, "one gap block per received run: every TSN accepted so far is reported")
	for i, b := range sack.gapAckBlocks {
		vassert(int(b.start) == 2*(i+1) && int(b.end) == 2*(i+1), "each block names exactly its run")
	}
	vcover("end")
}

// C05.L12: a received run that fills whole bitmap words is reported like any other. The
// cumulative point stands one or two TSNs before a multiple of 64 (also the one at the 2^32
// wrap); the TSN after it is missing and the next 64, 65 or 128 TSNs have all arrived (the run
// covers one or two complete words, ending on a word's last bit or one past it): the gap
// blocks are exactly that one run.
func vh_C05_L12_run_that_fills_whole_words_is_reported() {
	base := []uint32{62, 0xffffffbe, 0x7fffffbe}[vPick(3)] // base+2 is a multiple of 64
	back := uint32(vPick(2))                               // the run starts on the word boundary, or one TSN before it
	n := []int{64, 65, 128}[vPick(3)]
	q := newReceivePayloadQueue(192)
	q.init(base - back)
	start := base + 2 - back
	for i := 0; i < n; i++ {
		vassert(q.push(start+uint32(i)), "in-window TSN accepted")
	}
	blocks := q.getGapAckBlocks()
	vassert(len(blocks) == 1, "one run, one gap block (nothing omitted, nothing split)")
	if len(blocks) == 1 {
		vassert(blocks[0].start == 2 && int(blocks[0].end) == n+1, "the block covers exactly the run")
	}
	vcover("end")
}
