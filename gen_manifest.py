#!/usr/bin/env python3
# Regenerates MANIFEST.json from the table below (kept in one place so it stays valid).
import json
claimed = {
 # id: (level text, level_note, design_ref)
}
import importlib.util, os, sys
spec = json.load(open('/verif/manifest_src.json'))
props = [json.loads(l)['id'] for l in open('/verif/properties.jsonl')]
import re, glob, collections
obligation_names = collections.defaultdict(list)
for f in sorted(glob.glob('/verif/harness/*.go')):
    for m in re.finditer(r'^func (vh_(C\d\d)_\w+)\(\)', open(f).read(), re.M):
        obligation_names[m.group(2)].append(m.group(1))
checks = []
na = []
for pid in props:
    c = spec['claimed'].get(pid)
    if c:
        checks.append({
            "property_id": pid,
            "quick_cmd": f"./check {pid} quick",
            "thorough_cmd": f"./check {pid} thorough",
            "evidence_file": f"/verif/evidence/{pid}.json",
            "replay_cmd_template": "./check replay {path}",
            "engine": "vcheck",
            "level_claimed": {"category": "model_checking", "text": c['text'] + " Obligations (harness functions, described in HARNESSES.md): " + ", ".join(obligation_names[pid]) + ".", "design_ref": c.get('design_ref', 'DESIGN.md §4 ' + pid)},
            "level_note": c['note'],
            "technique": c.get('technique', "bounded symbolic execution of the real Go code (go/ssa -> SMT-LIB2 bit-vectors/FP, z3 5.1.0 with cvc5 fallback); counterexamples replayed natively"),
        })
    else:
        na.append({"property_id": pid, "reason": spec['not_applicable'].get(pid, "no solver-based check built yet (work in progress)")})
m = {
 "version": 1,
 "setup_cmd": "./setup.sh",
 "hooks": {
   "guard": "verif",
   "enable": "nothing is written into /repo: harness files under /verif/harness (build tag verif) are injected by overlay (go/packages Overlay for the engine, go test -overlay -tags verif for native replays). The same overlay carries copies of association.go and stream.go regenerated from /repo's current source on every run with four textual substitutions (patchedSources in /verif/engine/main.go, DESIGN 1.3 and 1.10): the three `go a.readLoop()/writeLoop()/timerLoop()` statements become vGo(...), the lock fields Association.lock, Association.timerMu, Stream.lock, Stream.writeLock are retyped to rank-tracking wrappers around the same sync mutexes, and the read-deadline goroutine of Stream.SetReadDeadline is queued through vSpawnCh",
   "baseline_off_cmd": "cd /repo && go test -vet=off -count=1 -timeout 25m ./...",
   "source_commits": [],
   "add_only": True
 },
 "engines": [{"name": "vcheck", "path": "/verif/engine", "serves_properties": sorted(spec['claimed'].keys()),
              "kind_free_text": "own go/ssa symbolic interpreter (path forking + if-conversion, heap with object identity) emitting SMT-LIB2 to z3 5.1.0 (z3-new -in) with cvc5 as fallback; bounded; every counterexample and a sample of completed paths are replayed against the real build with go test -overlay"}],
 "checks": checks,
 "not_applicable": na,
 "notes": spec.get('notes', '')
}
json.dump(m, open('/verif/MANIFEST.json', 'w'), indent=1)
print("claimed:", [c['property_id'] for c in checks])
