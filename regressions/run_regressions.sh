#!/bin/sh
# Reverts each fix: commit of /repo in turn (git apply -R of its diff), runs the quick
# checks of the properties it was found by, records whether a VIOLATION is reported again,
# and restores /repo. A fixed entry in known_findings.json suppresses nothing.
cd /verif
if [ -n "$(git -C /repo status --porcelain)" ]; then echo "/repo is not clean"; exit 2; fi
out=regressions/results.tsv; : > $out
for d in regressions/R*; do
  r=$(basename $d)
  props=$(python3 -c "import json;print(' '.join(json.load(open('$d/meta.json'))['properties']))")
  subj=$(python3 -c "import json;print(json.load(open('$d/meta.json'))['subject'])")
  if ! git -C /repo apply -R $PWD/$d/fix.diff 2>/dev/null; then echo "$r	revert does not apply (a later fix touches the same lines)	$subj" | tee -a $out; continue; fi
  res=""
  for p in $props; do
    o=$(./check $p quick 2>/dev/null); rc=$?
    res="$res $p:rc=$rc,viol=$(echo "$o" | grep -c '^VIOLATION')"
  done
  git -C /repo checkout -- .
  echo "$r	$res	$subj" | tee -a $out
done
