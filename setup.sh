#!/bin/sh
set -e
cd /verif/engine
export PATH=/opt/veriftools/go1.26.8/bin:$PATH GOTOOLCHAIN=local GOFLAGS=-mod=mod GOPROXY=off
mkdir -p ../bin ../build ../replays ../evidence
go build -o ../bin/vcheck .
